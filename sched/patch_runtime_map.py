#!/usr/bin/env python3
# Derives a copy of GOROOT/src/runtime/map.go in which the two sources of map-order randomness (per-map hash
# seed, per-iteration start) are taken from the environment variable VERIF_MAPROT when it is set.
# usage: patch_runtime_map.py <src map.go> <dst>
import sys, re
src, dst = sys.argv[1], sys.argv[2]
s = open(src).read()
n1 = s.count("h.hash0 = uint32(rand())")
s = s.replace("h.hash0 = uint32(rand())", "h.hash0 = verifHash0()")
old = "\tr := uintptr(rand())\n\tit.startBucket = r & bucketMask(h.B)"
n2 = s.count(old)
s = s.replace(old, "\tr := verifIterStart()\n\tit.startBucket = r & bucketMask(h.B)")
if n1 < 2 or n2 != 1:
    sys.stderr.write("runtime/map.go does not have the expected shape (hash0 sites %d, iterator sites %d)\n" % (n1, n2))
    sys.exit(1)
s += '''
// --- verification seam (build overlay only) ---
func verifMapRot() (int, bool) {
	v := gogetenv("VERIF_MAPROT")
	if v == "" {
		return 0, false
	}
	return atoi(v)
}

func verifHash0() uint32 {
	if k, ok := verifMapRot(); ok {
		return uint32(k) * 2654435761
	}
	return uint32(rand())
}

func verifIterStart() uintptr {
	if k, ok := verifMapRot(); ok {
		return uintptr(k)
	}
	return uintptr(rand())
}
'''
open(dst, "w").write(s)
