#!/bin/bash
cd /verif
export GOFLAGS=-mod=mod GOPROXY=off GOSUMDB=off GOTOOLCHAIN=local
go build -tags verif -o bin/vb.$$ ./cmd/verifbin || exit 2
./bin/vb.$$ replay "$1"; rc=$?; rm -f bin/vb.$$; exit $rc
