#!/bin/bash
# Builds the harness once from files on disk (warms GOCACHE); offline.
set -u
cd /verif
export GOFLAGS=-mod=mod GOPROXY=off GOSUMDB=off GOTOOLCHAIN=local
export VERIF_WORK=${VERIF_WORK:-/var/tmp/verif-work}
mkdir -p "$VERIF_WORK" bin evidence replays
cp /repo/go.sum go.sum
go build -tags verif -o bin/verifbin ./cmd/verifbin || exit 1
[ -x ./setup_extra.sh ] && { ./setup_extra.sh || exit 1; }
echo setup ok
