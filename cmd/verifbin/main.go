package main

import (
	"encoding/json"
	"fmt"
	"io"
	"log"
	"os"
	"sort"
	"strconv"
	"time"

	"verif/checks"
	"verif/internal/ev"
)

func usage() {
	fmt.Fprintln(os.Stderr, "usage: verifbin check <id> [--tier quick|thorough] | verifbin replay <file> | verifbin list | verifbin worker ...")
	os.Exit(2)
}

func main() {
	log.SetOutput(io.Discard) // the repo logs cache warm-ups through the std logger
	if len(os.Args) < 2 {
		usage()
	}
	switch os.Args[1] {
	case "list":
		var ids []string
		for id := range checks.Registry {
			ids = append(ids, id)
		}
		sort.Strings(ids)
		for _, id := range ids {
			fmt.Println(id)
		}
	case "check":
		if len(os.Args) < 3 {
			usage()
		}
		id := os.Args[2]
		tier := os.Getenv("VERIF_TIER")
		if tier == "" {
			tier = "quick"
		}
		for i := 3; i < len(os.Args); i++ {
			if os.Args[i] == "--tier" && i+1 < len(os.Args) {
				tier = os.Args[i+1]
				i++
			}
		}
		if tier != "quick" && tier != "thorough" {
			usage()
		}
		ch, ok := checks.Registry[id]
		if !ok {
			fmt.Fprintln(os.Stderr, "unknown check", id)
			os.Exit(2)
		}
		seed, _ := strconv.ParseInt(os.Getenv("VERIF_SEED"), 10, 64)
		bud := ch.QuickBud
		if tier == "thorough" {
			bud = ch.ThorBud
		}
		// development aid (not used by any registered command): cap the exploration budget, e.g. to smoke-test the
		// thorough configurations of many checks in a short time
		if v, err := strconv.Atoi(os.Getenv("VERIF_BUDGET_SEC")); err == nil && v > 0 && time.Duration(v)*time.Second < bud {
			bud = time.Duration(v) * time.Second
		}
		c := ev.NewCtx(id, tier, seed, bud)
		ch.Run(c)
		os.Exit(c.Finish())
	case "replay":
		if len(os.Args) < 3 {
			usage()
		}
		bz, err := os.ReadFile(os.Args[2])
		if err != nil {
			fmt.Fprintln(os.Stderr, err)
			os.Exit(2)
		}
		var r struct {
			Property  string          `json:"property"`
			Signature string          `json:"signature"`
			What      string          `json:"what"`
			Case      json.RawMessage `json:"case"`
		}
		if err := json.Unmarshal(bz, &r); err != nil {
			fmt.Fprintln(os.Stderr, err)
			os.Exit(2)
		}
		ch, ok := checks.Registry[r.Property]
		if !ok || ch.Replay == nil {
			fmt.Fprintln(os.Stderr, "no replay function for", r.Property)
			os.Exit(2)
		}
		desc, err := ch.Replay(r.Case)
		fmt.Println(desc)
		if err != nil {
			fmt.Printf("VIOLATION property=%s replay=%s\n   %v\n", r.Property, os.Args[2], err)
			os.Exit(1)
		}
		fmt.Println("replay: property held on this case")
	case "worker":
		checks.WorkerMain(os.Args[2:])
	case "job": // debugging aid: run one job file in-process and print the result
		bz, err := os.ReadFile(os.Args[2])
		if err != nil {
			fmt.Fprintln(os.Stderr, err)
			os.Exit(2)
		}
		fmt.Println(checks.RunJobJSON(bz))
	default:
		usage()
	}
}
