#!/bin/bash
# usage: check.sh <property id> <quick|thorough>
# Rebuilds the harness against /repo's current working tree (tag verif = hooks on) and runs one check.
set -u
cd /verif
export GOFLAGS=-mod=mod GOPROXY=off GOSUMDB=off GOTOOLCHAIN=local
export VERIF_WORK=${VERIF_WORK:-/var/tmp/verif-work}
mkdir -p "$VERIF_WORK" bin evidence replays
id=$1; tier=${2:-quick}
cp /repo/go.sum go.sum 2>/dev/null
if ! go build -tags verif -o bin/vb.$$ ./cmd/verifbin 2>"$VERIF_WORK/build.$id.log"; then
  echo "HARNESS-ERROR: build failed (see $VERIF_WORK/build.$id.log)"; tail -30 "$VERIF_WORK/build.$id.log"; exit 2
fi
./bin/vb.$$ check "$id" --tier "$tier"; rc=$?; rm -f bin/vb.$$; exit $rc
