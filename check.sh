#!/bin/bash
# usage: check.sh <property id> <quick|thorough>
# Rebuilds the harness against /repo's current working tree (tag verif = hooks on) and runs one check.
set -u
cd /verif
export GOFLAGS=-mod=mod GOPROXY=off GOSUMDB=off GOTOOLCHAIN=local
export VERIF_WORK=${VERIF_WORK:-/var/tmp/verif-work}
mkdir -p "$VERIF_WORK" bin evidence replays
id=$1; tier=${2:-quick}
# The checks build against /repo's current working tree. VERIF_REPO (development aid, used by seedtest.sh) points the
# build at a scratch copy of the repository instead, through an alternative go.mod; nothing registered in MANIFEST uses it.
REPO=${VERIF_REPO:-/repo}
modfile=()
if [ "$REPO" != /repo ]; then
  alt="$VERIF_WORK/alt.$$"
  sed "s#=> /repo\$#=> $REPO#" go.mod > "$alt.mod"; cp "$REPO/go.sum" "$alt.sum"
  modfile=(-modfile "$alt.mod")
else
  cp /repo/go.sum go.sum 2>/dev/null
fi
tags=verif; overlay=(); ov=
if [ "$id" = "C34" ]; then
  # C34: the mutexes of the evidence/session cache and of the servicer node become scheduling points. A shim
  # replaces the "sync" import of the CURRENT cache.go / pocketNode.go through a build overlay; /repo is untouched.
  ov="$VERIF_WORK/ovl.$$"; mkdir -p "$ov"
  repl='{"Replace":{'
  for f in cache.go pocketNode.go; do
    sed 's#^\t"sync"$#\tsync "github.com/pokt-network/pocket-core/x/pocketcore/types/vsync"#' "$REPO/x/pocketcore/types/$f" > "$ov/$f"
    if ! grep -q 'types/vsync"' "$ov/$f"; then
      echo "HARNESS-ERROR: cannot hook the sync import of x/pocketcore/types/$f"; rm -rf "$ov"; exit 2
    fi
    repl="$repl\"$REPO/x/pocketcore/types/$f\":\"$ov/$f\","
  done
  cp sched/vsync.go.src "$ov/vsync.go"
  printf '%s"%s/x/pocketcore/types/vsync/vsync.go":"%s/vsync.go"}}\n' "$repl" "$REPO" "$ov" > "$ov/overlay.json"
  tags="verif vsched"; overlay=(-overlay "$ov/overlay.json")
fi
if [ "$id" = "C12" ]; then
  # C12: two more worker binaries with a nondeterminism seam each (controlled map order / fake wall clock)
  ov="$VERIF_WORK/ovl.$$"; mkdir -p "$ov"
  goroot=$(go env GOROOT)
  if ! python3 sched/patch_runtime_map.py "$goroot/src/runtime/map.go" "$ov/map.go.txt"; then
    echo "HARNESS-ERROR: cannot derive the map-order seam from $goroot/src/runtime/map.go"; rm -rf "$ov"; exit 2
  fi
  printf '{"Replace":{"%s/src/runtime/map.go":"%s/map.go.txt"}}\n' "$goroot" "$ov" > "$ov/rt.json"
  if ! go build "${modfile[@]}" -tags verif -overlay "$ov/rt.json" -o "$ov/vb.maprot" ./cmd/verifbin 2>"$VERIF_WORK/build.$id.log" ||
     ! go build "${modfile[@]}" -tags "verif faketime" -o "$ov/vb.faketime" ./cmd/verifbin 2>>"$VERIF_WORK/build.$id.log"; then
    echo "HARNESS-ERROR: seam build failed (see $VERIF_WORK/build.$id.log)"; tail -30 "$VERIF_WORK/build.$id.log"; rm -rf "$ov"; exit 2
  fi
  export VERIF_BIN_MAPROT="$ov/vb.maprot" VERIF_BIN_FAKETIME="$ov/vb.faketime"
fi
if ! go build "${modfile[@]}" -tags "$tags" "${overlay[@]}" -o bin/vb.$$ ./cmd/verifbin 2>"$VERIF_WORK/build.$id.log"; then
  echo "HARNESS-ERROR: build failed (see $VERIF_WORK/build.$id.log)"; tail -30 "$VERIF_WORK/build.$id.log"
  [ -n "$ov" ] && rm -rf "$ov"; exit 2
fi
./bin/vb.$$ check "$id" --tier "$tier"; rc=$?; rm -f bin/vb.$$; [ -n "$ov" ] && rm -rf "$ov"; [ "$REPO" != /repo ] && rm -f "$alt.mod" "$alt.sum"; exit $rc
