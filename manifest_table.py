NA={}
add('C01','model_checking','explicit-state BFS over operation sequences on the real cachekv stack vs map-overlay model',
 'Every operation sequence up to the stated depth over a colliding key/range alphabet is executed on real cachekv.Store stacks and compared step by step with a stack-of-maps model; states merged on the implementation bookkeeping read by reflection.',
 'Bounded depth/alphabet; operations on the innermost wrap only; open iterators compared with creation-time snapshot.')
