NA={}
add('C01','model_checking','explicit-state BFS over operation sequences on the real cachekv stack vs map-overlay model',
 'Every operation sequence up to the stated depth over a colliding key/range alphabet is executed on real cachekv.Store stacks and compared step by step with a stack-of-maps model; states merged on the implementation bookkeeping read by reflection.',
 'Bounded depth/alphabet; operations on the innermost wrap only; open iterators compared with creation-time snapshot.')
add('C02','model_checking','exhaustive enumeration of parent contents x prefixes x write sequences on the real prefix.Store vs filter-by-prefix model',
 'All subsets of a 8-9 key parent universe x 5 prefixes (incl. 0xFF carries, nested) x 3 parent kinds x write sequences; every Get/Has/range iteration in both directions and the parent content compared with a map model.',
 'Bounded universe; empty key not used with empty prefix.')
add('C03','model_checking','explicit-state BFS + fixpoint over all reachable tree shapes of the real iavl.MutableTree vs per-version map model',
 'Every op sequence (set/remove/save/rollback/deleteVersion) to a depth, the complete reachable (key set, shape) space for up to 11-13 keys without saves, and every insert-order x remove-order of 5-6 keys; all read APIs of the working tree and each retained version compared with maps; AVL/size/inner-key invariants via the VerifShape hook.',
 'Bounded key universe/depth; MemDB backend.')
add('C04','model_checking','explicit-state BFS over set/delete/commit histories of the real rootmulti.Store with reopen-from-disk and twin-node oracles',
 'At every committed state of every history up to the depth a fresh store reopens a byte copy of the DB (latest and every version) and must reproduce contents and commit ids; a second node re-applying the blocks must agree on every hash.',
 'MemDB stands in for goleveldb; fresh objects stand in for a new process.')
add('C06','model_checking','explicit-state BFS over persistent/transient write + commit histories of the real rootmulti.Store with differential twin nodes',
 'Version increments, transient emptiness after commit and independence of the app hash from transient writes/mounting are checked in every reachable state up to the depth.',
 'Store-level (rootmulti); bounded alphabet.')
add('C08','model_checking','explicit-state BFS over commit histories x every rollback target on the real rootmulti.Store',
 'For every committed state and every earlier target: rollback on a DB copy, reopen, compare height/hash/contents with the model, later versions unreadable through 4 APIs, re-applied blocks reproduce original hashes.',
 'Rollback to height 0 not exercised; MemDB backend.')
add('C09','model_checking','explicit-state BFS over write/commit/open-historical-view histories on the real rootmulti.Store',
 'Every open historical view (lazy-loaded and versioned cache multistore) and every store query at every retained height is compared with the map committed at that height in every reachable state, with IAVL node cache 1 and default.',
 'Store-level; PrevCtx wrapper covered by the chain checks.')
add('C10','model_checking','explicit-state BFS + long-chain enumeration, pairwise differential cache-on vs cache-off node on the same DB',
 'Every read at every committed height on a cache-enabled live node equals the same read on a cache-disabled node opened on a byte copy of the DB, in every reachable state up to the depth and along 108 15-block chains that recycle cache slots.',
 'Bounded alphabet; compares all heights rather than only those served from the cache.')
add('C05','model_checking','exhaustive enumeration of trees x versions x keys x single-field proof mutations (and forged-leaf constructions) against the real query/verify code',
 'Completeness: every proof the store returns for every key of every enumerated tree/version verifies. Soundness: every enumerated alteration of key, value, claim, root, op envelope, multistore proof and IAVL range proof must fail; accepted alterations are classified as false-statement or malleable.',
 'Soundness is over the enumerated mutation alphabet (single-field edits + known forgery constructions), not over all byte strings.')
add('C07','fault_enumeration','crash-point enumeration: every subset of per-substore commit batches x every commit history (BFS) on the real rootmulti.Store over a recording DB',
 'For every committed state of every history up to the depth, the last commit is interrupted after every possible set of database writes; each crash state is reopened and must equal the last committed block, re-execution must reproduce the uninterrupted hash, and the following block must agree.',
 'Atomic batches, no write reordering by the DB, MemDB-backed recording DB; store level (the app-level 7-substore commit is exercised by the chain checks).')
add('C41','model_checking','exhaustive enumeration of operand pairs over boundary alphabets vs big.Int/big.Rat reference arithmetic',
 'All pairs of valid coin sets over 3 denominations and a boundary amount alphabet, all pairs of 66 boundary integers and 41 decimals: every Add/Sub/SafeSub/compare/Mul/Quo/rounding result compared with exact arithmetic; overflow must fail, negatives must be reported, operands must not be mutated.',
 'Finite alphabets chosen at bit-length and rounding boundaries; Quo accepts the documented 36-digit intermediate.')
add('C39','model_checking','exhaustive enumeration of single-byte signature/message mutations, key substitutions and multisig arrangements on the real verification code',
 'For fixed deterministic keys of both types and several messages: all 64x255 signature substitutions, message substitutions, other keys/messages must fail and the genuine one must verify; every multisig member list of 0..3 keys x every arrangement of signatures; all key encodings round-trip.',
 'Forgery resistance beyond the enumerated mutations is a cryptographic assumption (stated in DESIGN §5).')
_chain_note='Bounded depth over a fixed event menu, 3 nodes/2 apps/handful of accounts, shrunken parameters (2-block sessions, 1-interval unstaking); heights below 30040 (legacy height patches differ from mainnet); MemDB; worker processes with reset globals.'
add('C17','model_checking','explicit-state BFS over the real PocketCoreApp (block = transition) with the supply invariant evaluated in every reached state',
 'Every history of blocks up to the depth over a menu of sends, node/app staking, governance and environment events (missed votes, evidence, time jumps) is executed on the real application; in every reached state the recorded supply must equal the sum of all balances and every balance must be canonical.',_chain_note)
add('C19','model_checking','explicit-state BFS over the real PocketCoreApp with the node-pool invariant in every reached state',
 'Node staking pool balance == sum of stakes of staked+unstaking nodes in every state reachable through the node/env menu up to the depth.',_chain_note)
add('C20','model_checking','explicit-state BFS over the real PocketCoreApp with the app-pool invariant in every reached state',
 'Application staking pool balance == sum of stakes of staked+unstaking applications in every state reachable through the app menu (stake, edit, transfer, unstake, time jumps) up to the depth.',_chain_note)
add('C21','model_checking','explicit-state BFS over the real PocketCoreApp with raw-index vs record comparison in every reached state',
 'The raw staked-by-power, per-chain, unstaking-queue and waiting indexes are decoded from the store and compared with the node records in every reachable state up to the depth.',_chain_note)
add('C22','model_checking','explicit-state BFS over the real PocketCoreApp folding every reported validator update like Tendermint',
 'The consensus set obtained by folding InitChain/EndBlock updates equals the top-N staked unjailed nodes with current power in every reachable state, including MaxValidators changes.',_chain_note)
add('C11','model_checking','differential explicit-state search: every base history x insertion point x off-chain call on the real app vs a silent replica',
 'For every base history up to the depth, every position/phase and every CheckTx / simulate / store-query / custom-query call, the probed replica must report identical block results, validator updates and app hashes.',_chain_note)
add('C13','model_checking','differential explicit-state search with restarts and old-height reads on the real app vs a silent replica',
 'Histories in which state changes follow reads, with node restarts (cold caches) as menu events and queries at older heights inserted at every position; the probed replica must agree with the silent one block by block.',_chain_note+' Dispatch/relay side effects on claims are exercised by the relay checks.')
add('C18','model_checking','exhaustive case enumeration, differential replicas of the real app (block with the send vs empty block)',
 'All combinations of pre-state, sender, recipient and boundary amount: the balance changes of all accounts must equal the exact transfer model; rejected sends leave the app hash untouched.',_chain_note)
add('C14','model_checking','exhaustive enumeration of message kind x signer relation x signature corruption, differential replicas of the real app',
 'Every unauthorized combination must return a non-zero code and leave the app hash identical to a replica that executed an empty block instead.',_chain_note+' Authorization reference written from the docs.')
add('C15','model_checking','exhaustive enumeration of message x declared-fee variant x horizon, differential replicas of the real app',
 'Exact fee accounting against a reference replica for succeeding and failing messages, malformed fee coin lists, payers with exactly the fee, and after the next block.',_chain_note)
add('C16','model_checking','exhaustive wire-level re-encoding generator validated by the real decoder + differential replicas of the real app',
 'Every generated byte string that the real decoder maps to the same signed content (and the identical bytes) is resubmitted in the same / next / later block; the replica must end with the same app hash as one that never received the copy.',_chain_note+' Re-encodings are those of the generator alphabet (DESIGN §4 C16), current feature set.')
add('C23','model_checking','exhaustive enumeration of pre-state x edit x signer, differential replicas of the real app with field-by-field record comparison',
 'Node and application records before/after every edit-stake combination are compared field by field against the documented immutability rules.',_chain_note)
add('C24','model_checking','explicit-state BFS over the real PocketCoreApp with a per-block shadow lifecycle automaton',
 'After every block of every explored history the unstaking lifecycle of every node and application is compared with a shadow automaton (session-boundary exit, due-time payout, amount, recipient, once).',_chain_note)
add('C25','model_checking','explicit-state BFS over the real PocketCoreApp with a per-block slashing/jailing monitor',
 'After every block: burn == stake removed == supply decrease, below-minimum => jailed and queued, unjail acceptance == reference predicate on the pre-block state; consensus-set, pool and supply invariants on final states.',_chain_note)
add('C36','model_checking','exhaustive enumeration of parameter x value class x signer and DAO action x amount x signer, differential replicas of the real app',
 'Every stored parameter of every module and every DAO action is attempted by the ACL/DAO owner and by two other signers; parameter store, balances and supply are compared with a reference replica.',_chain_note)
add('C37','model_checking','exhaustive enumeration of upgrade-message sequences (depth 3) on the real app, running vs restarted replica',
 'Stored feature list sorted/duplicate-free and equal to a shadow schedule, activation table equal to the schedule on the running and on the restarted node, same next app hash.',_chain_note)
add('C28','model_checking','exhaustive enumeration of admission requests x application-set states and transfer variants, differential replicas of the real app',
 'Admission decision == reference predicate, allowance derived from stake, transfer semantics field by field, pool invariant.',_chain_note)
add('C43','model_checking','exhaustive enumeration of histories (depth 2-3) -> real ExportAppState -> fresh node InitChain in a new process -> state comparison',
 'For every enumerated history the exported state is imported by a new node and accounts, balances, supply, nodes, applications, parameters and claims are compared.',_chain_note)
add('C29','model_checking','exhaustive enumeration of relay counts x leaf indices x hashing schemes on the real Merkle-sum-index code',
 'Every generated proof for every index of every tree size in the bound verifies against the generated root with ceil(log2 n) levels, through GenerateProofs and through Evidence.GenerateMerkleProof.',
 'Relay proofs are synthetic but hashed by the real code; n bounded (33 quick / 130 thorough).')
add('C30','model_checking','exhaustive enumeration of single-field proof mutations and duplicated-relay multisets on the real verifier',
 'Every alteration of leaf, index, sibling, target, root or level count must fail; every path through a zero-width range must be (invalid, replay) according to a reference range model.',
 'Mutation alphabet is single-field; zero-width reference model in the harness.')
add('C33','model_checking','exhaustive enumeration of candidate populations x per-node eligibility states x session keys on the real NewSessionNodes, plus explicit-state BFS over real ABCI blocks with the dispatched session checked in every state',
 'Every assignment of {eligible, jailed, over the chain limit, other chain, gone} to n-1..n+3 candidates for n in 1..3 (5 thorough) and 6-16 session keys: same result twice, fails iff fewer than n eligible, exactly n distinct eligible nodes; the same oracle on the session dispatched by the real keeper in every chain state reached by a jail/unjail/edit/unstake menu.',
 'Population size <= 7; termination by 60 s watchdog; one application and chain on the real-keeper layer.')
add('C27','model_checking','exhaustive enumeration of the (exponent grid x bin shape x multipliers x relay counts x bin-boundary stakes) domain on the real nodes keeper reward and burn functions',
 'All 101 exponents x 6-10 bin/ceiling shapes x 3-5 weight multipliers x 2-4 token multipliers x 5-8 relay counts x every stake around every bin boundary up to beyond the ceiling: each call terminates, is non-negative, monotone in stake and relays, and flat from the ceiling on.',
 'Finite grids for the multipliers/relays; termination by 30 s watchdog per call.')
add('C26','model_checking','exhaustive enumeration of (allocation pair x stake-weight setting x multiplier x relay count x node x delegator map) on the real nodes keeper reward and fee-distribution code, with exact big-rational reference amounts',
 'Every combination of the finite grids: minted = computed reward = exact formula; fee part exact; operator/delegator/output shares exact per address; collected fees fully distributed with DAO and proposer parts adding up.',
 'Grids are finite (allocation pairs 36 quick / ~1000 thorough); fractional exponents compared with a float bound.')
add('C42','model_checking','exhaustive enumeration of block-result histories x every query/sort/page on the real TransactionIndexer vs a filter-and-sort model',
 'All histories of 3 blocks x <=2 (3 thorough) transactions from a 7-kind alphabet at height triples crossing the number-encoding length boundaries, plus 12-transaction blocks, indexed via Index and AddBatch; every hash lookup and every (height | signer | recipient [+height]) x sort x page size x page query compared with the model, including total and page concatenation.',
 'MemDB backend (same iterator contract as goleveldb); 3 colliding addresses; DeleteFromHeight (rollback) not covered.')
add('C40','model_checking','explicit-state search to the fixpoint over keybase operations on the real in-memory and on-disk keybase vs a map model, plus exhaustive key x passphrase x armor-mutation enumeration on the real armor code',
 'Keybase: all operation sequences over 2 fixed + 1 created key x 2 passphrases until no new state appears (27 states), every operation result and in every state List/Get/Export under every passphrase/Sign compared with the model. Armor: 3 keys x 8 passphrases pairwise (right one opens, every other fails) and 19 armor mutations never yield another key.',
 'Passphrase/key alphabets are small because scrypt runs unmodified (80 ms per derivation); coinbase cache not part of the model.')
add('C38','model_checking','exhaustive deviation-bounded enumeration (all combinations of up to 2/3 non-typical leaf values) of 29 message/state/parameter types through every real encode/decode path, plus all field-order permutations for sign bytes',
 'Reflective generator: every leaf field has a typical value and 2-5 alternatives (empty, maximal, nil vs empty, multi-element, unicode, key kinds, multisig, proof kinds, every message in StdTx); each selected value goes through current and legacy binary codec, JSON and the real keeper storage paths and must decode to an equal value; sign bytes are identical for every field order and every delegator insertion order.',
 'Deviation bound 2 (quick) / 3 (thorough); alternatives per leaf are finite lists; invalid states (nil stake key, unnamed module account) excluded.')
add('C35','model_checking','explicit-state BFS over real ABCI blocks (stake/unstake/jail/edit menu) with an exhaustive relay-mutation alphabet applied through the real HandleRelay in every reached state, against a reference authorization predicate',
 'In every chain state: well-formed relay, identical relay twice, 19 single-field alterations, valid-but-unauthorized field choices, sessions -3..+2 and client heights at/beyond the allowance; served+recorded once+signed iff authorized by the reference, else rejected with evidence unchanged.',
 'This process is servicer N1; session seats = eligible nodes so membership does not depend on the selection hash; stub HTTP chain.')
add('C32','model_checking','explicit-state search over real ABCI blocks with a deviation bound on non-empty blocks (claim/proof/jail/unstake menu) and a shadow model of the claim store evaluated after every block',
 'Histories of 8-12 blocks with at most 2-4 non-empty blocks from an 18-item menu of valid, early, late, foreign, oversized and repeated claims and valid, wrong-index, wrong-leaf, outside-tree, too-early, other-evidence and repeated proofs: every accepted claim satisfies the acceptance conditions evaluated on historical state, every accepted proof is the valid one for a pending claim, supply changes only by the computed reward of accepted proofs, the claim store equals the shadow (incl. expiry).',
 'Synthetic evidence of 6/7/11 relays; one application, two nodes, session seats = nodes.')
add('C31','model_checking','exhaustive enumeration of (blocks per session x submission window) configurations x every claim height x every single-block hash perturbation, executed on the real application (differential executions)',
 'For each configuration the set of heights that accept a claim and the last block whose hash influences the required leaf index are both measured on the real app (the index mirror is bound to the implementation by an accepted proof at the index and a rejected one next to it); violation iff a claim is accepted at or after the height at which that hash is public.',
 'Configurations: bps 2-6 x window 2-4; relay counts 5..16 for the index vectors.')
add('C34','model_checking','stateless model checking of the real HandleRelay/SendClaimTx under a hand-written cooperative scheduler (scheduling points = evidence-cache and servicer mutex operations, hooked by a build overlay), depth-first over all schedules up to a preemption bound',
 'Six 2-3 goroutine scenarios (identical relays, distinct relays, three relays at a limit of two, relays racing the real claim-time sealing) on a real chain state; every schedule with <= 2 preemptions (thorough: 50, i.e. all) is executed on freshly cleared caches and the stored evidence is compared with the responses (no duplicate, count, limit, every answered relay recorded, identical relay answered once, claimed count = stored count); the default schedule is replayed twice and must be identical.',
 'Accesses between two lock operations of one goroutine are atomic for the scheduler; a free-running race-detector pass is not part of the check.')
add('C12','model_checking','explicit-state BFS over real ABCI blocks with every explored history re-executed under enumerated nondeterminism seams (runtime map hash seed + iteration start from an environment variable via a build overlay of runtime/map.go; Go faketime clock; fresh processes) and block results compared',
 'Every history up to the depth (plus three long reward/jail histories) is executed by the base worker and by repeat, map-order k (3 quick / 10 thorough) and fake-clock workers fed the identical transaction bytes; per-transaction code/data, validator updates and app hash of every block must be identical.',
 'Map order varies over the enumerated seeds, not over all permutations; goroutine scheduling inside block execution is not varied (execution is single-threaded).')
