package checks

import (
	"bytes"
	"encoding/hex"
	"encoding/json"
	"fmt"
	"runtime"
	"sync"
	"time"

	pcrypto "github.com/pokt-network/pocket-core/crypto"
	"github.com/tendermint/tendermint/crypto/ed25519"
	"github.com/tendermint/tendermint/crypto/secp256k1"

	"verif/internal/ev"
)

// deterministic key material (no randomness anywhere in the checks)
func edKey(i int) pcrypto.PrivateKey {
	return pcrypto.Ed25519PrivateKey(ed25519.GenPrivKeyFromSecret([]byte(fmt.Sprintf("verif-ed25519-%d", i))))
}
func secpKey(i int) pcrypto.PrivateKey {
	return pcrypto.Secp256k1PrivateKey(secp256k1.GenPrivKeySecp256k1([]byte(fmt.Sprintf("verif-secp256k1-%d", i))))
}

type c39Job struct {
	Kind string `json:"key_type"`
	Key  int    `json:"key_index"`
	Msg  int    `json:"message_index"`
}

func c39Msgs(tier string) [][]byte {
	m := [][]byte{{}, []byte("x"), bytes.Repeat([]byte{0xab}, 32)}
	if tier == "thorough" {
		m = append(m, bytes.Repeat([]byte("pocket"), 171))
	}
	return m
}

func c39Single(c *ev.Ctx, j c39Job, msgs [][]byte, nkeys int) int64 {
	mk := edKey
	if j.Kind == "secp256k1" {
		mk = secpKey
	}
	priv := mk(j.Key)
	pub := priv.PublicKey()
	msg := msgs[j.Msg]
	sig, err := priv.Sign(msg)
	if err != nil {
		c.Report("sig/"+j.Kind+"/sign-error", err.Error(), j)
		return 1
	}
	var n int64 = 1
	if !pub.VerifyBytes(msg, sig) {
		c.Report("sig/"+j.Kind+"/own-signature-rejected", fmt.Sprintf("%s key %d: signature over message %d does not verify under its own public key", j.Kind, j.Key, j.Msg), j)
		return n
	}
	// every single-byte substitution of the signature
	for i := range sig {
		for v := 0; v < 256; v++ {
			if byte(v) == sig[i] {
				continue
			}
			m := append([]byte{}, sig...)
			m[i] = byte(v)
			n++
			if pub.VerifyBytes(msg, m) {
				c.Report("sig/"+j.Kind+"/altered-signature-accepted", fmt.Sprintf("%s key %d message %d: signature with byte %d changed %02x->%02x still verifies", j.Kind, j.Key, j.Msg, i, sig[i], v), map[string]interface{}{"job": j, "byte": i, "value": v})
			}
		}
	}
	// truncated / extended / empty
	for name, m := range map[string][]byte{"truncated": sig[:len(sig)-1], "extended": append(append([]byte{}, sig...), 0), "empty": {}, "nil": nil, "doubled": append(append([]byte{}, sig...), sig...)} {
		n++
		ok := false
		if p := safely(func() { ok = pub.VerifyBytes(msg, m) }); p != nil {
			c.Outcome("verify-panics-on-" + name)
		}
		if ok {
			c.Report("sig/"+j.Kind+"/"+name+"-signature-accepted", fmt.Sprintf("%s key %d message %d: %s signature verifies", j.Kind, j.Key, j.Msg, name), map[string]interface{}{"job": j, "variant": name})
		}
	}
	// every single-byte substitution of the message (all positions for short messages, 3 classes for long)
	pos := []int{}
	for i := range msg {
		if len(msg) <= 32 || i == 0 || i == len(msg)/2 || i == len(msg)-1 {
			pos = append(pos, i)
		}
	}
	for _, i := range pos {
		for v := 0; v < 256; v++ {
			if byte(v) == msg[i] {
				continue
			}
			m := append([]byte{}, msg...)
			m[i] = byte(v)
			n++
			if pub.VerifyBytes(m, sig) {
				c.Report("sig/"+j.Kind+"/other-message-accepted", fmt.Sprintf("%s key %d: signature over message %d verifies for a message with byte %d changed", j.Kind, j.Key, j.Msg, i), map[string]interface{}{"job": j, "byte": i, "value": v})
			}
		}
	}
	for mi, om := range msgs {
		if mi != j.Msg {
			n++
			if pub.VerifyBytes(om, sig) {
				c.Report("sig/"+j.Kind+"/other-message-accepted", fmt.Sprintf("%s key %d: signature over message %d verifies for message %d", j.Kind, j.Key, j.Msg, mi), j)
			}
		}
	}
	n++
	if pub.VerifyBytes(append(append([]byte{}, msg...), 0), sig) || (len(msg) > 0 && pub.VerifyBytes(msg[:len(msg)-1], sig)) {
		c.Report("sig/"+j.Kind+"/other-message-accepted", fmt.Sprintf("%s key %d: signature over message %d verifies for an extended/truncated message", j.Kind, j.Key, j.Msg), j)
	}
	// every other key (both types)
	for _, kind := range []string{"ed25519", "secp256k1"} {
		for k := 0; k < nkeys; k++ {
			if kind == j.Kind && k == j.Key {
				continue
			}
			other := edKey(k)
			if kind == "secp256k1" {
				other = secpKey(k)
			}
			n++
			ok := false
			_ = safely(func() { ok = other.PublicKey().VerifyBytes(msg, sig) })
			if ok {
				c.Report("sig/"+j.Kind+"/other-key-accepts", fmt.Sprintf("signature by %s key %d verifies under %s key %d", j.Kind, j.Key, kind, k), j)
			}
		}
	}
	return n
}

func c39Encodings(c *ev.Ctx, nkeys int) int64 {
	var n int64
	for _, kind := range []string{"ed25519", "secp256k1"} {
		for k := 0; k < nkeys; k++ {
			priv := edKey(k)
			if kind == "secp256k1" {
				priv = secpKey(k)
			}
			pub := priv.PublicKey()
			addr := pub.Address()
			chk := func(name string, got pcrypto.PublicKey, err error) {
				n++
				if err != nil || got == nil || !bytes.Equal(got.RawBytes(), pub.RawBytes()) || !bytes.Equal(got.Address(), addr) || !got.Equals(pub) || fmt.Sprintf("%T", got) != fmt.Sprintf("%T", pub) {
					c.Report("encoding/"+kind+"/"+name, fmt.Sprintf("%s key %d: %s round trip gives %v (err %v), expected %s", kind, k, name, got, err, pub.RawString()), nil)
				}
			}
			g, err := pcrypto.NewPublicKey(pub.RawString())
			chk("raw-hex", g, err)
			g, err = pcrypto.NewPublicKeyBz(pub.RawBytes())
			chk("raw-bytes", g, err)
			g, err = pcrypto.PubKeyFromBytes(pub.Bytes())
			chk("amino", g, err)
			bz, _ := hex.DecodeString(pub.String())
			g, err = pcrypto.PubKeyFromBytes(bz)
			chk("amino-hex", g, err)
			g, err = pcrypto.PubKeyToPublicKey(pub.PubKey())
			chk("tendermint-pubkey", g, err)
			js, err := json.Marshal(pub)
			if err == nil {
				if kind == "ed25519" {
					var d pcrypto.Ed25519PublicKey
					err = json.Unmarshal(js, &d)
					chk("json", d, err)
				} else {
					var d pcrypto.Secp256k1PublicKey
					err = json.Unmarshal(js, &d)
					chk("json", d, err)
				}
			} else {
				chk("json", nil, err)
			}
			// private key encodings
			p2, err := pcrypto.NewPrivateKey(priv.RawString())
			n++
			if err != nil || !bytes.Equal(p2.RawBytes(), priv.RawBytes()) || !p2.PublicKey().Equals(pub) {
				c.Report("encoding/"+kind+"/private-raw-hex", fmt.Sprintf("%s private key %d does not round-trip through its raw hex form: %v", kind, k, err), nil)
			}
			p3, err := pcrypto.PrivKeyFromBytes(priv.Bytes())
			n++
			if err != nil || !bytes.Equal(p3.RawBytes(), priv.RawBytes()) {
				c.Report("encoding/"+kind+"/private-amino", fmt.Sprintf("%s private key %d does not round-trip through amino: %v", kind, k, err), nil)
			}
			p4, err := pcrypto.PrivKeyToPrivateKey(priv.PrivKey())
			n++
			if err != nil || !bytes.Equal(p4.RawBytes(), priv.RawBytes()) {
				c.Report("encoding/"+kind+"/private-tendermint", fmt.Sprintf("%s private key %d does not round-trip through the tendermint key type: %v", kind, k, err), nil)
			}
			// the decoded key signs verifiably for the original public key
			if p2 != nil {
				s, _ := p2.Sign([]byte("m"))
				if !pub.VerifyBytes([]byte("m"), s) {
					c.Report("encoding/"+kind+"/decoded-key-signs-differently", "signature by the decoded private key does not verify under the original public key", nil)
				}
			}
			c.Distinct(fmt.Sprintf("enc|%s|%d", kind, k))
		}
	}
	return n
}

// c39Multisig: member lists of 0..3 keys of mixed types; every arrangement of signatures.
func c39Multisig(c *ev.Ctx, msgs [][]byte) int64 {
	var n int64
	pool := []pcrypto.PrivateKey{edKey(0), secpKey(0), edKey(1), secpKey(1)}
	outsider := edKey(2)
	var lists [][]int
	var rec func(cur []int)
	rec = func(cur []int) {
		lists = append(lists, append([]int{}, cur...))
		if len(cur) == 3 {
			return
		}
		for i := range pool {
			rec(append(cur, i))
		}
	}
	rec(nil)
	for _, members := range lists {
		var pubs []pcrypto.PublicKey
		for _, i := range members {
			pubs = append(pubs, pool[i].PublicKey())
		}
		mk := pcrypto.PublicKeyMultiSignature{PublicKeys: pubs}
		for mi, msg := range msgs[:2] {
			sigs := make([][]byte, len(members))
			for si, i := range members {
				sigs[si], _ = pool[i].Sign(msg)
			}
			build := func(ss [][]byte) []byte {
				return pcrypto.MultiSignature{Sigs: ss}.Marshal()
			}
			label := fmt.Sprintf("multisig members=%v message=%d", members, mi)
			verify := func(ss [][]byte, m []byte) (ok bool) {
				n++
				_ = safely(func() { ok = mk.VerifyBytes(m, build(ss)) })
				return
			}
			inOrder := verify(sigs, msg)
			cs := map[string]interface{}{"members": members, "message": mi}
			if len(members) == 0 {
				if inOrder {
					c.Report("multisig/zero-keys/verifies-without-any-signature", fmt.Sprintf("%s: a multi-signature key with no member keys accepts an empty multi-signature for any message (no private key produced it)", label), cs)
				}
				continue
			}
			if !inOrder {
				c.Report("multisig/in-order-rejected", fmt.Sprintf("%s: all member signatures in member order do not verify", label), cs)
				continue
			}
			// also through the documented builder, adding in member order
			var ms pcrypto.MultiSig = pcrypto.MultiSignature{}.NewMultiSignature()
			for si := range members {
				ms = ms.AddSignatureByIndex(sigs[si], si)
			}
			n++
			if !mk.VerifyBytes(msg, ms.Marshal()) {
				c.Report("multisig/builder-in-order-rejected", fmt.Sprintf("%s: multi-signature built with AddSignatureByIndex in member order does not verify", label), cs)
			}
			// every permutation that changes the sequence of (distinct) signatures must fail
			perms := permutations(len(members))
			for _, p := range perms {
				same := true
				for i, x := range p {
					if members[x] != members[i] {
						same = false
					}
				}
				if same {
					continue
				}
				ss := make([][]byte, len(p))
				for i, x := range p {
					ss[i] = sigs[x]
				}
				if verify(ss, msg) {
					c.Report("multisig/out-of-order-accepted", fmt.Sprintf("%s: signatures in order %v verify", label, p), cs)
				}
			}
			for drop := range members {
				ss := append(append([][]byte{}, sigs[:drop]...), sigs[drop+1:]...)
				if verify(ss, msg) {
					c.Report("multisig/missing-signature-accepted", fmt.Sprintf("%s: verifies with signature %d missing", label, drop), cs)
				}
				os, _ := outsider.Sign(msg)
				ss = append([][]byte{}, sigs...)
				ss[drop] = os
				if verify(ss, msg) {
					c.Report("multisig/non-member-signature-accepted", fmt.Sprintf("%s: verifies with signature %d made by a non-member", label, drop), cs)
				}
				ss = append([][]byte{}, sigs...)
				ss[drop], _ = pool[members[drop]].Sign(msgs[2])
				if verify(ss, msg) {
					c.Report("multisig/other-message-signature-accepted", fmt.Sprintf("%s: verifies with signature %d made over another message", label, drop), cs)
				}
				ss = append([][]byte{}, sigs...)
				ss[drop] = []byte{}
				if verify(ss, msg) {
					c.Report("multisig/empty-signature-accepted", fmt.Sprintf("%s: verifies with signature %d empty", label, drop), cs)
				}
			}
			if verify(append(append([][]byte{}, sigs...), sigs[0]), msg) {
				c.Report("multisig/extra-signature-accepted", fmt.Sprintf("%s: verifies with an extra signature appended", label), cs)
			}
			if verify(sigs, msgs[2]) {
				c.Report("multisig/other-message-accepted", fmt.Sprintf("%s: verifies for another message", label), cs)
			}
			// raw garbage / single-key signature instead of a multisignature
			n++
			if mk.VerifyBytes(msg, sigs[0]) && len(members) > 0 {
				c.Report("multisig/plain-signature-accepted", fmt.Sprintf("%s: a plain member signature verifies as multi-signature", label), cs)
			}
			// encoding round trip of the multisig public key
			g, err := pcrypto.NewPublicKeyBz(mk.Bytes())
			n++
			if err != nil || !g.Equals(mk) || !bytes.Equal(g.Address(), mk.Address()) {
				c.Report("encoding/multisig/amino", fmt.Sprintf("%s: public key does not round-trip through its byte encoding: %v", label, err), cs)
			}
			c.Distinct(fmt.Sprintf("ms|%v|%d", members, mi))
		}
	}
	return n
}

func permutations(n int) [][]int {
	var out [][]int
	var rec func(cur []int, used int)
	rec = func(cur []int, used int) {
		if len(cur) == n {
			out = append(out, append([]int{}, cur...))
			return
		}
		for i := 0; i < n; i++ {
			if used&(1<<i) == 0 {
				rec(append(cur, i), used|1<<i)
			}
		}
	}
	rec(nil, 0)
	return out
}

func init() {
	register(&Check{ID: "C39", QuickBud: 100 * time.Second, ThorBud: 20 * time.Minute,
		Run: func(c *ev.Ctx) {
			nkeys := 2
			if c.Tier == "thorough" {
				nkeys = 3
			}
			msgs := c39Msgs(c.Tier)
			c.Rule = fmt.Sprintf("%d fixed keys per type (ed25519, secp256k1) x %d messages: own signature verifies; every single-byte substitution of the signature (64x255), truncated/extended/empty signatures, every single-byte substitution of the message, every other message, every other key of both types must not verify; multi-signature keys over every member list of 0..3 keys from a mixed pool of 4: in-order verifies, every order-changing permutation, missing / non-member / other-message / empty / extra signatures fail; raw, hex, amino, JSON and tendermint encodings of public and private keys round-trip with stable addresses. Non-trivial = distinct (key,message) / member list", nkeys, len(msgs))
			c.Assume("'only the matching key' is decided against the finite set of other keys and all single-byte mutations, not against forgery in general (that is a cryptographic assumption)")
			c.Assume("multi-signatures are assembled in member order (AddSignatureByIndex out of order misplaces entries; construction order is outside the verification property)")
			var jobs []c39Job
			for _, kind := range []string{"ed25519", "secp256k1"} {
				for k := 0; k < nkeys; k++ {
					for m := range msgs {
						jobs = append(jobs, c39Job{kind, k, m})
					}
				}
			}
			ch := make(chan c39Job, len(jobs))
			for _, j := range jobs {
				ch <- j
			}
			close(ch)
			var wg sync.WaitGroup
			var mu sync.Mutex
			var total int64
			for w := 0; w < runtime.GOMAXPROCS(0); w++ {
				wg.Add(1)
				go func() {
					defer wg.Done()
					for j := range ch {
						n := c39Single(c, j, msgs, nkeys)
						c.Distinct(fmt.Sprintf("%s|%d|%d", j.Kind, j.Key, j.Msg))
						mu.Lock()
						total += n
						mu.Unlock()
					}
				}()
			}
			wg.Wait()
			total += c39Encodings(c, nkeys)
			total += c39Multisig(c, msgs)
			c.AddEvals(total)
			c.Sample(map[string]interface{}{"key": "ed25519 #0", "message": "32 x 0xab", "mutations": "64x255 signature bytes, 32x255 message bytes, other keys, other messages"})
			c.Sample(map[string]interface{}{"multisig_members": []string{"ed25519#0", "secp256k1#0", "ed25519#0"}, "arrangements": "in order, all permutations, missing, non-member, extra"})
			c.BoundDone = fmt.Sprintf("%d single-key cases, all multisig member lists of length 0..3 over 4 keys, %d verifications", len(jobs), total)
		},
	})
}

// edKeyRaw: deterministic tendermint ed25519 key from a seed string.
func edKeyRaw(seed string) ed25519.PrivKeyEd25519 { return ed25519.GenPrivKeyFromSecret([]byte(seed)) }
