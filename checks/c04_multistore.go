package checks

import (
	"bytes"
	"encoding/json"
	"fmt"
	"time"

	storetypes "github.com/pokt-network/pocket-core/store/types"

	"verif/internal/ev"
	"verif/internal/seq"
)

func msSpec(name string, cfg *msCfg, depth int) *seq.Spec {
	ops := msOps(cfg)
	return &seq.Spec{Name: name, NumOps: len(ops), Depth: depth,
		OpName: func(i int) string { return ops[i].String() },
		OpKind: func(i int) string { return ops[i].kind },
		New:    func() seq.Sys { return newMsSys(cfg, ops) },
		Trivial: func(h []uint16) bool {
			c := 0
			for _, o := range h {
				if ops[o].kind == "commit" {
					c++
				}
			}
			return c == 0
		},
	}
}

func msReplay(specs func(tier string) []*seq.Spec) func(raw json.RawMessage) (string, error) {
	return func(raw json.RawMessage) (string, error) {
		var r seq.Replay
		if err := json.Unmarshal(raw, &r); err != nil {
			return "", err
		}
		for _, tier := range []string{"quick", "thorough"} {
			for _, sp := range specs(tier) {
				if sp.Name == r.Spec && replayNamesMatch(sp, r) {
					return seq.ReplayOps(sp, r.Idx)
				}
			}
		}
		return "", fmt.Errorf("no spec matches replay %q", r.Spec)
	}
}

func msRunSpecs(c *ev.Ctx, specs []*seq.Spec) {
	done := ""
	for _, sp := range specs {
		r := seq.Run(c, sp)
		done += fmt.Sprintf("%s: depth %d/%d complete=%v states=%d transitions=%d ops=%d; ", sp.Name, r.DepthDone, sp.Depth, r.Complete, r.States, r.Transitions, sp.NumOps)
		if !r.Complete {
			c.Cap(fmt.Sprintf("%s stopped at depth %d of %d", sp.Name, r.DepthDone, sp.Depth))
		}
	}
	c.BoundDone = done
}

var msKeys3 = [][]byte{{0x01}, {0x02}, {0x03}}
var msBounds3 = [][]byte{nil, {0x01}, {0x02}, {0x03}}

// ---- C04: reload reproduces state; two nodes agree ----

func c04Final(s *msSys) (string, string) {
	if len(s.commits) == 0 {
		return "", ""
	}
	// (i) reopen a new store on (a copy of) the same database, in a "new process": fresh keys, fresh caches
	for _, cacheSize := range []int64{1, 0} {
		db2 := copyMemDB(s.db)
		rs2, sk2, _ := msOpen(db2, s.cfg, false, cacheSize)
		if err := rs2.LoadLatestVersion(); err != nil {
			return "reload/error", fmt.Sprintf("LoadLatestVersion after reopen failed: %v", err)
		}
		last := s.commits[len(s.commits)-1]
		if id := rs2.LastCommitID(); id.Version != last.id.Version || !bytes.Equal(id.Hash, last.id.Hash) {
			return "reload/commitid", fmt.Sprintf("after reopen LastCommitID=%d:%x, committed %d:%x", id.Version, id.Hash, last.id.Version, last.id.Hash)
		}
		if sig, what := msObserveMulti("reopened latest", rs2, sk2, last.contents, s.cfg.keys, s.cfg.bounds, false); sig != "" {
			return "reload/" + sig, what
		}
		for _, cm := range s.commits {
			rs3, sk3, _ := msOpen(db2, s.cfg, false, cacheSize)
			if err := rs3.LoadVersion(cm.ver); err != nil {
				return "reload/loadversion", fmt.Sprintf("LoadVersion(%d) after reopen failed: %v", cm.ver, err)
			}
			if id := rs3.LastCommitID(); id.Version != cm.id.Version || !bytes.Equal(id.Hash, cm.id.Hash) {
				return "reload/commitid-version", fmt.Sprintf("LoadVersion(%d) reports %d:%x, committed %d:%x", cm.ver, id.Version, id.Hash, cm.id.Version, cm.id.Hash)
			}
			if sig, what := msObserveMulti(fmt.Sprintf("reopened version %d", cm.ver), rs3, sk3, cm.contents, s.cfg.keys, s.cfg.bounds, false); sig != "" {
				return "reload-version/" + sig, what
			}
			// per-store commit ids of the loaded version
			for i, k := range sk3 {
				_ = i
				cid := rs3.GetCommitStore(k).LastCommitID()
				if cid.Version != cm.ver {
					return "reload/substore-version", fmt.Sprintf("substore %s loaded at version %d, wanted %d", k.Name(), cid.Version, cm.ver)
				}
			}
		}
	}
	// (ii) second node: same writes and commits on its own database => identical commit ids
	twinCfg := *s.cfg
	rs4, sk4, tk4 := msOpen(newEmptyMemDB(), &twinCfg, false, 1)
	_ = rs4.LoadLatestVersion()
	for _, cm := range s.commits {
		id := msApplyBlock(rs4, sk4, tk4, cm.block)
		if id.Version != cm.id.Version || !bytes.Equal(id.Hash, cm.id.Hash) {
			return "twin/commitid", fmt.Sprintf("second node committing the same writes got %d:%x at version %d, first node %x", id.Version, id.Hash, cm.ver, cm.id.Hash)
		}
	}
	// (iii) the store that never closed agrees too: its latest state and every saved version as IT reads them (the
	// reopened store above and the running store must show the same saved versions)
	if sig, what := msObserveMulti("live store", s.rs, s.skeys, s.commits[len(s.commits)-1].contents, s.cfg.keys, s.cfg.bounds, false); sig != "" {
		return sig, what
	}
	for _, cm := range s.commits {
		lz, err := s.rs.LoadLazyVersion(cm.ver)
		if err != nil {
			return "live-version/error", fmt.Sprintf("the running store cannot load saved version %d: %v", cm.ver, err)
		}
		if sig, what := msObserveMulti(fmt.Sprintf("saved version %d read by the running store (latest %d)", cm.ver, s.latest()), (*lz).(storetypes.MultiStore), s.skeys, cm.contents, s.cfg.keys, s.cfg.bounds, false); sig != "" {
			return "live-version/" + sig, what
		}
	}
	return "", ""
}

func c04Specs(tier string) []*seq.Spec {
	cfg := &msCfg{nStores: 2, keys: msKeys3[:2], vals: [][]byte{[]byte("a"), []byte("b")}, bounds: msBounds3[:3], maxCommits: 3, final: c04FinalCommitted}
	depth := 7
	if tier == "thorough" {
		cfg = &msCfg{nStores: 2, keys: msKeys3, vals: [][]byte{[]byte("a"), []byte("b")}, bounds: msBounds3, maxCommits: 4, final: c04FinalCommitted}
		depth = 8
	}
	d := *cfg
	d.direct = true // block writes straight into the live stores, as the application's deliver state does
	// three keys, one value, one store: the smallest tree in which a removal rewrites an inner node's separator key
	three := &msCfg{nStores: 1, keys: msKeys3, vals: [][]byte{[]byte("a")}, bounds: msBounds3[:3], maxCommits: 3, final: c04FinalCommitted}
	return []*seq.Spec{msSpec("multistore-reload", cfg, depth), msSpec("multistore-reload-direct-writes", &d, depth-2), msSpec("multistore-reload-three-keys", three, 7)}
}

// only states right after a commit are observed by reopening (uncommitted writes are not on disk by design)
func c04FinalCommitted(s *msSys) (string, string) {
	if len(s.pending) != 0 || s.cms != nil {
		return "", ""
	}
	return c04Final(s)
}

func init() {
	register(&Check{ID: "C04", QuickBud: 100 * time.Second, ThorBud: 30 * time.Minute,
		Run: func(c *ev.Ctx) {
			c.Rule = "BFS over all sequences of set/delete/commit on a real 2-substore rootmulti.Store over MemDB (writes go through a CacheMultiStore flushed at commit, like baseapp); at every state reached by a commit: a copy of the DB is reopened by a fresh store (LoadLatestVersion and LoadVersion(v) for every committed v, node cache size 1 and default) and every read (Get/Has/all ranges both directions) plus commit ids are compared with the per-version map model; a second node re-applies the same blocks on an empty DB and must report identical commit ids. Non-trivial = history with at least one commit"
			c.Assume("MemDB stands in for goleveldb (the code under test only sees dbm.DB); 'new process' = fresh store objects and fresh store keys on a byte copy of the DB")
			msRunSpecs(c, c04Specs(c.Tier))
			// with the node's state cache switched on (pocket config `cache`): chains long enough for the cache to recycle
			// its slots; after every block the running node and a node reopened on a byte copy of its database (cache
			// off) must read every saved version alike
			c.Rule += "; with the state cache enabled: 15-block chains (all pairs of 6 per-block action sets, one-shot write/delete chains), after every block every saved version read by the running node == read by a node reopened on a copy of the database"
			c10LongChains(c, 15)
		},
		Replay: msReplay(c04Specs),
	})
}

var _ = storetypes.StoreTypeIAVL
