package checks

import (
	"encoding/hex"
	"fmt"
	"runtime"
	"sync"
	"time"

	pcrypto "github.com/pokt-network/pocket-core/crypto"
	sdk "github.com/pokt-network/pocket-core/types"
	nodesexported "github.com/pokt-network/pocket-core/x/nodes/exported"
	nodesTypes "github.com/pokt-network/pocket-core/x/nodes/types"
	pc "github.com/pokt-network/pocket-core/x/pocketcore/types"
	abci "github.com/tendermint/tendermint/abci/types"
	"github.com/tendermint/tendermint/config"

	"verif/internal/ev"
)

// mockPos: only the three methods NewSessionNodes uses; everything else panics (nil embedded interface).
type mockPos struct {
	pc.PosKeeper
	listed   []sdk.Address                   // staked for the chain at session start
	vals     map[string]nodesTypes.Validator // reference-height records (absent = node no longer exists)
	maxChain int64
}

func (m mockPos) MaxChains(ctx sdk.Ctx) int64 { return m.maxChain }
func (m mockPos) GetValidatorsByChain(ctx sdk.Ctx, chain string) ([]sdk.Address, int) {
	return m.listed, len(m.listed)
}
func (m mockPos) Validator(ctx sdk.Ctx, addr sdk.Address) nodesexported.ValidatorI {
	v, ok := m.vals[addr.String()]
	if !ok {
		return nil
	}
	return v
}

type c33Case struct {
	N      int    `json:"session_node_count"`
	States []int  `json:"node_states"` // 0 ok, 1 jailed, 2 over the chain limit, 3 no longer staked for the chain, 4 gone
	Key    string `json:"session_key_seed"`
}

var c33StateNames = []string{"ok", "jailed", "over-chain-limit", "other-chain", "gone"}

func c33Run1(cs c33Case) (sig, what string) {
	chain := "0001"
	m := mockPos{vals: map[string]nodesTypes.Validator{}, maxChain: 2}
	eligible := map[string]bool{}
	for i, st := range cs.States {
		k := pcrypto.Ed25519PrivateKey(edKeyRaw(fmt.Sprintf("c33-node-%d", i)))
		addr := sdk.Address(k.PublicKey().Address())
		m.listed = append(m.listed, addr)
		v := nodesTypes.Validator{Address: addr, PublicKey: k.PublicKey(), Status: sdk.Staked, Chains: []string{chain}, StakedTokens: sdk.NewInt(1000000)}
		switch st {
		case 0:
			eligible[addr.String()] = true
		case 1:
			v.Jailed = true
		case 2:
			v.Chains = []string{chain, "0002", "0003"}
		case 3:
			v.Chains = []string{"0002"}
		case 4:
			continue
		}
		m.vals[addr.String()] = v
	}
	appPk := hex.EncodeToString(edKeyRaw("c33-app-" + cs.Key).PubKey().Bytes()[5:])
	bh := hex.EncodeToString(pc.Hash([]byte("blockhash-" + cs.Key)))
	key, err := pc.NewSessionKey(appPk, chain, bh)
	if err != nil {
		return "harness", "cannot build session key: " + err.Error()
	}
	ctx := sdk.NewContext(nil, abci.Header{Height: 80001}, false, nil)
	type outT struct {
		nodes pc.SessionNodes
		err   sdk.Error
	}
	run := func() (o outT, timedOut bool) {
		ch := make(chan outT, 1)
		go func() {
			defer func() {
				if p := recover(); p != nil {
					ch <- outT{nil, sdk.ErrInternal(fmt.Sprintf("panic: %v", p))}
				}
			}()
			n, e := pc.NewSessionNodes(ctx, ctx, m, chain, key, cs.N)
			ch <- outT{n, e}
		}()
		select {
		case o = <-ch:
			return o, false
		case <-time.After(60 * time.Second):
			return outT{}, true
		}
	}
	a, to := run()
	desc := func() string {
		var ss []string
		for _, s := range cs.States {
			ss = append(ss, c33StateNames[s])
		}
		return fmt.Sprintf("session of %d nodes over candidates %v (key seed %s)", cs.N, ss, cs.Key)
	}
	if to {
		return "session/does-not-terminate", desc() + ": no result within 60 s"
	}
	b, _ := run()
	if fmt.Sprint(a.nodes) != fmt.Sprint(b.nodes) || (a.err == nil) != (b.err == nil) {
		return "session/not-deterministic", desc() + fmt.Sprintf(": two calls returned %v and %v", a.nodes, b.nodes)
	}
	enough := len(eligible) >= cs.N
	if enough != (a.err == nil) {
		return "session/failure-decision", desc() + fmt.Sprintf(": %d eligible candidates, result error=%v", len(eligible), a.err)
	}
	if a.err != nil {
		return "", ""
	}
	if len(a.nodes) != cs.N {
		return "session/size", desc() + fmt.Sprintf(": returned %d nodes", len(a.nodes))
	}
	seen := map[string]bool{}
	for _, n := range a.nodes {
		if n == nil || !eligible[n.String()] {
			return "session/ineligible-node", desc() + fmt.Sprintf(": returned node %v is not eligible", n)
		}
		if seen[n.String()] {
			return "session/duplicate-node", desc() + fmt.Sprintf(": node %v returned twice", n)
		}
		seen[n.String()] = true
	}
	return "", ""
}

func init() {
	// on chain states: the session the node would dispatch for P1 / chain 0001 at the current height
	chainInvariants["sessions"] = func(r *replica, res *JobResult) {
		ctx := r.ctxNow()
		_, nk, apk, _, pk := r.app.VerifKeepers()
		app, found := apk.GetApplication(ctx, caddr("P1"))
		if !found || app.Status != sdk.Staked {
			return
		}
		header := pc.SessionHeader{ApplicationPubKey: app.PublicKey.RawString(), Chain: "0001"}
		sbh := pk.GetLatestSessionBlockHeight(ctx)
		sessionCtx, err := ctx.PrevCtx(sbh)
		if err != nil {
			return
		}
		count := int(pk.SessionNodeCount(sessionCtx))
		eligible := map[string]bool{}
		// eligibility from the node RECORDS (not from the by-chain index that session generation itself reads): staked
		// for the chain at session start, and at the reference height present, not jailed and within the chain limit
		for _, sv := range nk.GetAllValidators(sessionCtx) {
			if sv.Status != sdk.Staked || !pc.NodeHasChain("0001", sv) {
				continue
			}
			v, ok := nk.GetValidator(ctx, sv.Address)
			if ok && !v.Jailed && pc.NodeHasChain("0001", v) && int64(len(v.Chains)) <= nk.MaxChains(sessionCtx) {
				eligible[sv.Address.String()] = true
			}
		}
		if pc.GlobalSessionCache == nil {
			pc.GlobalSessionCache = &pc.CacheStorage{}
			pc.GlobalSessionCache.Init("", "", config.LevelDBOptions{}, 100, true)
		}
		pc.ClearSessionCache(pc.GlobalSessionCache)
		resp, e := pk.HandleDispatch(ctx, header)
		resp2, e2 := pk.HandleDispatch(ctx, header)
		var roles []string
		for a := range eligible {
			ad, _ := sdk.AddressFromHex(a)
			roles = append(roles, roleOf(ad))
		}
		desc := fmt.Sprintf("height %d, session block %d, %d nodes per session, eligible at the reference height %v", r.height, sbh, count, roles)
		if (e == nil) != (len(eligible) >= count) {
			res.viol("sessions/failure-decision", desc+fmt.Sprintf(": dispatch error=%v", e))
			return
		}
		if e != nil {
			return
		}
		if e2 != nil || fmt.Sprint(resp.Session.SessionNodes) != fmt.Sprint(resp2.Session.SessionNodes) {
			res.viol("sessions/not-deterministic", desc)
		}
		if len(resp.Session.SessionNodes) != count {
			res.viol("sessions/size", desc+fmt.Sprintf(": %d nodes returned", len(resp.Session.SessionNodes)))
		}
		seen := map[string]bool{}
		for _, n := range resp.Session.SessionNodes {
			if n == nil {
				res.viol("sessions/nil-node", desc)
				continue
			}
			a := n.GetAddress().String()
			if !eligible[a] {
				res.viol("sessions/ineligible-node", desc+fmt.Sprintf(": session contains %s (jailed=%v)", roleOf(n.GetAddress()), n.IsJailed()))
			}
			if seen[a] {
				res.viol("sessions/duplicate-node", desc)
			}
			seen[a] = true
		}
	}

	// the session of the PREVIOUS session height as claim validation regenerates it on a node whose session cache is
	// cold (restart, eviction): the servicers whose claim passes the session test must be exactly the nodes that
	// session generation yields for (application, chain, session height) with the session-start block hash, i.e. the
	// nodes dispatch handed out while the session was current
	chainInvariants["sessions-claimpath"] = func(r *replica, res *JobResult) {
		ctx := r.ctxNow()
		_, nk, apk, _, pk := r.app.VerifKeepers()
		sbh := pk.GetLatestSessionBlockHeight(ctx)
		bps := pk.BlocksPerSession(ctx)
		sh := sbh - bps
		if sh <= r.env.BaseHeight+1 {
			return
		}
		sessionCtx, err := ctx.PrevCtx(sh)
		if err != nil {
			return
		}
		endCtx, err := ctx.PrevCtx(sh + bps - 1)
		if err != nil {
			return
		}
		app, found := apk.GetApplication(sessionCtx, caddr("P1"))
		if !found {
			return
		}
		header := pc.SessionHeader{ApplicationPubKey: app.PublicKey.RawString(), Chain: "0001", SessionBlockHeight: sh}
		count := int(pk.SessionNodeCount(sessionCtx))
		hash, e := sessionCtx.BlockHash(chainCodec(), sh)
		if e != nil {
			return
		}
		if pc.GlobalSessionCache == nil {
			pc.GlobalSessionCache = &pc.CacheStorage{}
			pc.GlobalSessionCache.Init("", "", config.LevelDBOptions{}, 100, true)
		}
		ref, rerr := pc.NewSession(sessionCtx, endCtx, nk, header, hex.EncodeToString(hash), count)
		want := map[string]bool{}
		if rerr == nil {
			for _, n := range ref.SessionNodes {
				want[roleOf(n)] = true
			}
		}
		got := map[string]bool{}
		codes := map[string]string{}
		undecided := false
		for _, v := range nk.GetAllValidators(sessionCtx) {
			pc.ClearSessionCache(pc.GlobalSessionCache)
			cl := pc.MsgClaim{SessionHeader: header, MerkleRoot: pc.HashRange{Hash: make([]byte, 32), Range: pc.Range{Upper: 1}}, TotalProofs: 5, FromAddress: v.Address, EvidenceType: pc.RelayEvidence}
			role := roleOf(v.Address)
			if ce := pk.ValidateClaim(ctx, cl); ce == nil {
				got[role] = true
				codes[role] = "accepted"
			} else {
				codes[role] = fmt.Sprintf("code %d", ce.Code())
				if ce.Code() != pc.CodeInvalidSessionError && !(rerr != nil && ce.Code() == rerr.Code()) {
					undecided = true // refused for a reason other than the session test (application gone, over-service, ...)
				}
			}
		}
		pc.ClearSessionCache(pc.GlobalSessionCache)
		if undecided {
			res.Obs["claimpath"] = "undecided"
			return
		}
		res.Obs["claimpath"] = fmt.Sprintf("%d-of-%d", len(got), len(codes))
		if fmt.Sprint(want) != fmt.Sprint(got) {
			res.viol("sessions/claim-validation-regenerates-other-session", fmt.Sprintf("height %d: session %d of P1 on chain 0001 (%d seats): session generation with the session-start block hash gives %v (error %v); claim validation on a cold session cache lets these servicers pass: %v (per node: %v)", r.height, sh, count, want, rerr, got, codes))
		}
	}

	register(&Check{ID: "C33", QuickBud: 110 * time.Second, ThorBud: 25 * time.Minute,
		Run: func(c *ev.Ctx) {
			counts := []int{1, 2, 3}
			extra := 3
			keys := []string{"a", "b", "c", "d", "e", "f"}
			if c.Tier == "thorough" {
				counts = []int{1, 2, 3, 5}
				keys = append(keys, "g", "h", "i", "j", "k", "l", "m", "n", "o", "p")
			}
			c.Rule = "(1) NewSessionNodes over a stub node keeper: session sizes n x candidate populations of n-1..n+3 nodes x EVERY assignment of {eligible, jailed, over the chain limit, no longer on the chain, gone} to the candidates x several session keys: the result is identical on a second call, fails iff fewer than n candidates are eligible at the reference height, and otherwise contains exactly n distinct eligible nodes; each call has a 60 s watchdog (nominal cost microseconds); (2) on the real application: BFS over a node/jail/unjail/edit menu, the dispatched session for the staked application is checked the same way in every reached state, and for the previous session the set of servicers whose claim passes claim validation on a cold session cache must equal the nodes session generation gives with the session-start block hash"
			c.Assume("termination is checked by a watchdog bound, not proved")
			resetGlobals(defaultEnv()) // mainnet-era feature schedule: the chain limit is enforced
			var cases []c33Case
			for _, n := range counts {
				for total := n - 1; total <= n+extra; total++ {
					if total < 1 || total > 7 {
						continue
					}
					states := make([]int, total)
					var rec func(i int)
					rec = func(i int) {
						if i == total {
							for _, k := range keys {
								cases = append(cases, c33Case{N: n, States: append([]int{}, states...), Key: k})
							}
							return
						}
						for s := 0; s < 5; s++ {
							states[i] = s
							rec(i + 1)
						}
					}
					rec(0)
				}
			}
			work := make(chan c33Case, 256)
			var wg sync.WaitGroup
			var mu sync.Mutex
			var n int64
			for w := 0; w < runtime.GOMAXPROCS(0); w++ {
				wg.Add(1)
				go func() {
					defer wg.Done()
					var ln int64
					for cs := range work {
						if c.Expired() {
							continue
						}
						ln++
						if sig, what := c33Run1(cs); sig != "" {
							c.Report(sig, what, cs)
						}
					}
					mu.Lock()
					n += ln
					mu.Unlock()
				}()
			}
			for _, cs := range cases {
				nonTrivial := false
				for _, s := range cs.States {
					if s != 0 {
						nonTrivial = true
					}
				}
				if nonTrivial {
					c.Distinct(fmt.Sprintf("%d|%v|%s", cs.N, cs.States, cs.Key))
				}
				work <- cs
			}
			close(work)
			wg.Wait()
			c.AddEvals(n)
			c.OutcomeN("stub-keeper-cases", n)
			c.Sample(cases[len(cases)/2])
			// (2) real keeper
			env := defaultEnv()
			env.MaxValidators = 3
			env.SessionNodeCount = 2
			env.BaseRelays = 1000 // a claim of 5 relays is within P1's allowance
			env.Setup = append(append([]TxSpec{}, env.Setup...), TxSpec{Kind: "node_stake", Signer: "N3", Args: map[string]string{"node": "N3", "value": "1000000", "output": "N3", "chains": "0001"}})
			menu := []BlockSpec{{Absent: []string{"N1"}}, {Absent: []string{"N3"}}, {Evidence: []string{"N3"}}, blk(tx("node_unjail", "N1", "node", "N1", "as", "N1")),
				blk(tx("node_stake", "N2", "node", "N2", "value", "3000000", "output", "N2", "chains", "0002")), blk(tx("node_unstake", "N1")), {TimeJump: 2}, {},
				blk(tx("node_stake", "N2", "node", "N2", "value", "2500000", "output", "N2", "chains", "0001+0002"))} // an edit that keeps the chain
			depth := 4
			if c.Tier == "thorough" {
				depth = 5
			}
			cfg := &chainCfg{Name: "sessions", Env: env, Menu: menu, Depth: depth, Want: []string{"sessions", "sessions-claimpath"}}
			cfg.OnResult = func(c *ev.Ctx, hist []int, job Job, res JobResult) {
				if v, ok := res.Obs["claimpath"].(string); ok {
					c.Outcome("claim-path-session:" + v)
				}
			}
			// from a state in which N1 is already jailed: leaving (begin-unstake while jailed, forced unstake), the end of
			// the session, the end of the jail period and unjailing, in every order
			jenv := env
			jenv.UnstakingBlocks = 6 // a leaving node stays in the unstaking state for the rest of the explored history
			jcfg := &chainCfg{Name: "sessions-after-jailing", Env: jenv, Prefix: []BlockSpec{{Absent: []string{"N1"}}, {Absent: []string{"N1"}}},
				Menu: []BlockSpec{blk(tx("node_unstake", "N1")), {}, {TimeJump: 2}, blk(tx("node_unjail", "N1", "node", "N1", "as", "N1")), {Absent: []string{"N1"}}}, Depth: depth, Want: []string{"sessions", "sessions-claimpath"}}
			chainExplore(c, jcfg)
			st := chainExplore(c, cfg)
			c.BoundDone = fmt.Sprintf("%d stub-keeper cases; %s", n, chainDone(c, cfg, st))
			getPool().Close()
		},
		Replay: chainReplayFn,
	})
}
