package checks

import (
	"bytes"
	"fmt"
	"runtime"
	"sync"
	"time"

	"github.com/pokt-network/pocket-core/store/rootmulti"
	storetypes "github.com/pokt-network/pocket-core/store/types"

	"verif/internal/ev"
	"verif/internal/seq"
)

// msCompareStore: every read on the cache-enabled node vs the same read on the cache-disabled node.
func msCompareStore(label string, on, off storetypes.KVStore, keys, bounds [][]byte) (string, string) {
	for _, k := range keys {
		a, _ := on.Get(k)
		b, _ := off.Get(k)
		if (a == nil) != (b == nil) || !bytes.Equal(a, b) {
			if b == nil && a != nil && len(a) == 0 {
				return "get/absent-key/empty-instead-of-nil", fmt.Sprintf("%s: Get(%x) returns %s with the state cache and %s without (key absent at that height)", label, k, hx(a), hx(b))
			}
			return "get/value", fmt.Sprintf("%s: Get(%x) returns %s with the state cache and %s without", label, k, hx(a), hx(b))
		}
		ha, _ := on.Has(k)
		hb, _ := off.Has(k)
		if ha != hb {
			return "has/value", fmt.Sprintf("%s: Has(%x) returns %v with the state cache and %v without", label, k, ha, hb)
		}
	}
	for _, st := range bounds {
		for _, en := range bounds {
			for _, asc := range []bool{true, false} {
				var ia, ib storetypes.Iterator
				if asc {
					ia, _ = on.Iterator(st, en)
					ib, _ = off.Iterator(st, en)
				} else {
					ia, _ = on.ReverseIterator(st, en)
					ib, _ = off.ReverseIterator(st, en)
				}
				var a, b []kvPair
				var ea string
				if p := safely(func() { a, ea = drain(ia, 64) }); p != nil {
					ea = fmt.Sprintf("panic: %v", p)
				}
				b, _ = drain(ib, 64)
				if ea != "" || !pairsEq(a, b) {
					d := "iter"
					if !asc {
						d = "reviter"
					}
					return d + "/" + c10Classify(a, b, st, en, ea), fmt.Sprintf("%s: %s(%s,%s) yields %s %s with the state cache and %s without", label, d, hx(st), hx(en), fmtPairs(a), ea, fmtPairs(b))
				}
			}
		}
	}
	return "", ""
}

func c10Classify(on, off []kvPair, st, en []byte, e string) string {
	if e != "" && len(e) > 5 && e[:5] == "panic" {
		return "panic"
	}
	inOff := map[string]string{}
	for _, p := range off {
		inOff[p.K] = p.V
	}
	inOn := map[string]string{}
	for _, p := range on {
		inOn[p.K] = p.V
	}
	for _, p := range on {
		if _, ok := inOff[p.K]; !ok {
			if p.K == "" {
				return "phantom-empty-key"
			}
			return "extra-entry"
		}
	}
	for _, p := range off {
		if _, ok := inOn[p.K]; !ok {
			return "missing-entry"
		}
	}
	for _, p := range on {
		if inOff[p.K] != p.V {
			return "value"
		}
	}
	return "order"
}

func c10CompareAll(s *msSys, label string) (string, string) {
	rsOff, skOff, _ := msOpen(copyMemDB(s.db), s.cfg, false, s.cfg.iavlCache)
	if err := rsOff.LoadLatestVersion(); err != nil {
		return "twin/error", err.Error()
	}
	for _, cm := range s.commits {
		on, err1 := s.rs.LoadLazyVersion(cm.ver)
		off, err2 := rsOff.LoadLazyVersion(cm.ver)
		if (err1 == nil) != (err2 == nil) {
			return "lazyload/error", fmt.Sprintf("%s LoadLazyVersion(%d): cache on err=%v, cache off err=%v", label, cm.ver, err1, err2)
		}
		if err1 != nil {
			continue
		}
		msOn, msOff := (*on).(storetypes.MultiStore), (*off).(storetypes.MultiStore)
		for i := range s.skeys {
			lbl := fmt.Sprintf("%sheight %d of %d, store%d", label, cm.ver, s.latest(), i)
			if sig, what := msCompareStore(lbl, msOn.GetKVStore(s.skeys[i]), msOff.GetKVStore(skOff[i]), s.cfg.keys, s.cfg.bounds); sig != "" {
				return sig, what
			}
			// the way keepers read: through a cache wrap
			if sig, what := msCompareStore(lbl+" (cache-wrapped)", msOn.CacheMultiStore().GetKVStore(s.skeys[i]), msOff.CacheMultiStore().GetKVStore(skOff[i]), s.cfg.keys, s.cfg.bounds); sig != "" {
				return "wrapped/" + sig, what
			}
		}
	}
	// views opened earlier on the cache-enabled node against fresh cache-off views of the same height
	for _, v := range s.views {
		off, err := rsOff.LoadLazyVersion(v.ver)
		if err != nil {
			continue
		}
		for i := range s.skeys {
			lbl := fmt.Sprintf("%s%s view of height %d opened at %s, now height %d, store%d", label, v.kind, v.ver, v.openedAt, s.latest(), i)
			if sig, what := msCompareStore(lbl, v.ms.GetKVStore(s.skeys[i]), (*off).(storetypes.MultiStore).GetKVStore(skOff[i]), s.cfg.keys, s.cfg.bounds); sig != "" {
				return "oldview/" + sig, what
			}
		}
	}
	// the working state of the live node
	for i := range s.skeys {
		if sig, what := msObserveStore(fmt.Sprintf("%sworking state store%d (cache on)", label, i), s.block().GetKVStore(s.skeys[i]), s.working[i], s.cfg.keys, s.cfg.bounds); sig != "" {
			return "working/" + sig, what
		}
	}
	return "", ""
}

func c10Final(s *msSys) (string, string) { return c10CompareAll(s, "") }

func c10Specs(tier string) []*seq.Spec {
	keys := [][]byte{{0x01}, {0x02}, {0x04}}
	probes := [][]byte{{0x01}, {0x02}, {0x03}, {0x04}}
	bounds := [][]byte{nil, {}, {0x01}, {0x02}, {0x03}, {0x04}, {0x05}}
	cfg := &msCfg{nStores: 1, keys: keys[:2], vals: [][]byte{[]byte("a")}, bounds: bounds, maxCommits: 3, cache: true, reopenOp: true, viewKinds: []string{"lazy"}, maxViews: 1, final: c10Final}
	depth := 8
	if tier == "thorough" {
		cfg = &msCfg{nStores: 1, keys: keys, vals: [][]byte{[]byte("a"), []byte("b")}, bounds: bounds, maxCommits: 4, cache: true, reopenOp: true, viewKinds: []string{"lazy"}, maxViews: 2, final: c10Final}
		depth = 7
	}
	_ = probes
	d := *cfg
	d.direct = true
	// present keys whose value is empty (index-style entries, as the by-chain node index writes them): present at a
	// height is not the same as "has a non-empty value"
	e := *cfg
	e.keys, e.vals = keys[:2], [][]byte{{}, []byte("a")}
	return []*seq.Spec{msSpec("statecache", cfg, depth), msSpec("statecache-direct-writes", &d, depth-2), msSpec("statecache-empty-values", &e, depth-2)}
}

// c10LongChains: chains long enough that cache slots are recycled (capacity 12).
func c10LongChains(c *ev.Ctx, blocks int) {
	keys := [][]byte{{0x01}, {0x02}, {0x04}}
	bounds := [][]byte{nil, {0x01}, {0x03}, {0x05}}
	type act struct {
		del bool
		k   int
	}
	acts := [][]act{{}, {{false, 0}}, {{false, 1}}, {{true, 0}}, {{false, 0}, {false, 2}}, {{true, 0}, {true, 1}, {true, 2}}}
	// periodic chains: even blocks apply set a, odd blocks set b; one-shot chains (p1 > 0): block p1 applies a,
	// block p2 applies b, every other block is empty (a key present when a slot is filled and gone when it is recycled)
	type job struct{ a, b, reopenAt, p1, p2 int }
	jobs := make(chan job, 64)
	var wg sync.WaitGroup
	var mu sync.Mutex
	var n, steps int64
	for w := 0; w < runtime.GOMAXPROCS(0); w++ {
		wg.Add(1)
		go func() {
			defer wg.Done()
			for j := range jobs {
				if c.Expired() {
					continue
				}
				cfg := &msCfg{nStores: 1, keys: keys, vals: [][]byte{[]byte("a")}, bounds: bounds, maxCommits: blocks + 1, cache: true}
				s := newMsSys(cfg, nil)
				var lsteps int64
				for b := 0; b < blocks; b++ {
					as := acts[j.a]
					if b%2 == 1 {
						as = acts[j.b]
					}
					if j.p1 > 0 {
						switch b + 1 {
						case j.p1:
							as = acts[j.a]
						case j.p2:
							as = acts[j.b]
						default:
							as = nil
						}
					}
					for _, a := range as {
						if a.del {
							s.apply(msOp{kind: "del", key: keys[a.k]})
						} else {
							s.apply(msOp{kind: "set", key: keys[a.k], val: []byte{byte('a' + b)}})
						}
					}
					if sig, what := s.apply(msOp{kind: "commit"}); sig != "" {
						c.Report("statecache-long/"+sig, what, j)
						break
					}
					if b == j.reopenAt {
						s.apply(msOp{kind: "reopen"})
					}
					lsteps++
					var sig, what string
					if p := safely(func() {
						sig, what = c10CompareAll(s, fmt.Sprintf("long chain (pattern %d/%d, one-shot blocks %d/%d, reopen after block %d) ", j.a, j.b, j.p1, j.p2, j.reopenAt))
					}); p != nil {
						sig, what = "panic", fmt.Sprintf("panic: %v", p)
					}
					if sig != "" {
						c.Report("statecache-long/"+sig, what, map[string]interface{}{"pattern_even": j.a, "pattern_odd": j.b, "one_shot_first": j.p1, "one_shot_second": j.p2, "reopen_after_block": j.reopenAt, "block": b + 1})
						break
					}
				}
				mu.Lock()
				n++
				steps += lsteps
				mu.Unlock()
				c.Distinct(fmt.Sprintf("long|%d|%d|%d|%d|%d", j.a, j.b, j.reopenAt, j.p1, j.p2))
			}
		}()
	}
	for a := range acts {
		for b := range acts {
			for _, r := range []int{-1, 2, 13} {
				jobs <- job{a, b, r, 0, 0}
			}
		}
	}
	for _, a := range []int{1, 4} { // set k1 | set k1+k3
		for _, b := range []int{3, 5, 2} { // del k1 | del all | set k2
			for p1 := 1; p1 <= 3; p1++ {
				for p2 := p1 + 1; p2 <= blocks; p2++ {
					jobs <- job{a, b, -1, p1, p2}
				}
			}
		}
	}
	close(jobs)
	wg.Wait()
	c.AddStates(steps)
	c.AddTransitions(steps)
	c.AddTraces(n)
	c.OutcomeN("long-chains", n)
	c.Sample(map[string]interface{}{"long_chain": fmt.Sprintf("%d blocks, even blocks apply action set a, odd blocks action set b, optional reopen; after every block every retained height is read with cache on and off", blocks), "actions": "{}, set k1, set k2, del k1, set k1+k3, del all"})
}

func init() {
	register(&Check{ID: "C10", QuickBud: 100 * time.Second, ThorBud: 30 * time.Minute,
		Run: func(c *ev.Ctx) {
			c.Rule = "BFS over all sequences of set/delete/commit/reopen/open-view on a real rootmulti.Store with the height cache enabled; at every state, for every committed height, every read (Get incl. nil-ness, Has, Iterator/ReverseIterator over all bounds incl. absent keys, direct and cache-wrapped) is executed on the cache-enabled node and on a cache-disabled node opened on a byte copy of the same DB and compared pairwise; plus chains of 15 blocks (cache capacity 12, slots recycle) over all pairs of 6 per-block action sets x 3 reopen points, and one-shot chains (a write block at 1..3, a delete/write block at any later position, empty blocks otherwise). Non-trivial = history with a commit"
			c.Assume("the comparison covers every committed height; which of them the node actually serves from the cache is the implementation's choice (all of them are compared)")
			msRunSpecs(c, c10Specs(c.Tier))
			c10LongChains(c, 15)
		},
		Replay: msReplay(c10Specs),
	})
}

var _ = rootmulti.MemoryCacheCapacity
var _ = seq.Run
