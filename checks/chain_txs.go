package checks

import (
	"encoding/hex"
	"encoding/json"
	"fmt"
	"strconv"
	"strings"

	pcrypto "github.com/pokt-network/pocket-core/crypto"
	sdk "github.com/pokt-network/pocket-core/types"
	appsTypes "github.com/pokt-network/pocket-core/x/apps/types"
	"github.com/pokt-network/pocket-core/x/auth"
	authTypes "github.com/pokt-network/pocket-core/x/auth/types"
	govTypes "github.com/pokt-network/pocket-core/x/gov/types"
	nodesTypes "github.com/pokt-network/pocket-core/x/nodes/types"
	abci "github.com/tendermint/tendermint/abci/types"
	"github.com/tendermint/tendermint/state/txindex"
)

func txindexBatch(n int) *txindex.Batch { return txindex.NewBatch(int64(n)) }

func argInt(a map[string]string, k string, def int64) sdk.BigInt {
	if v, ok := a[k]; ok {
		i, ok2 := sdk.NewIntFromString(v)
		if ok2 {
			return i
		}
	}
	return sdk.NewInt(def)
}

func argAddr(a map[string]string, k, def string) sdk.Address {
	v, ok := a[k]
	if !ok {
		v = def
	}
	if v == "" {
		return nil
	}
	if strings.HasPrefix(v, "hex:") {
		b, _ := hex.DecodeString(v[4:])
		return sdk.Address(b)
	}
	if strings.HasPrefix(v, "module:") {
		return sdk.Address(auth.NewModuleAddress(v[7:]))
	}
	return caddr(v)
}

func argChains(a map[string]string, k string, def []string) []string {
	if v, ok := a[k]; ok {
		if v == "" {
			return nil
		}
		return strings.Split(v, "+")
	}
	return def
}

// buildMsg turns a symbolic spec into the real message.
func buildMsg(t TxSpec) (sdk.ProtoMsg, error) {
	a := t.Args
	switch t.Kind {
	case "send":
		return &nodesTypes.MsgSend{FromAddress: argAddr(a, "from", t.Signer), ToAddress: argAddr(a, "to", "A2"), Amount: argInt(a, "amount", 1)}, nil
	case "node_stake":
		node := a["node"]
		if node == "" {
			node = t.Signer
		}
		if a["legacy"] == "1" { // the message format of a chain on which the non-custodial upgrade is not active yet
			return &nodesTypes.LegacyMsgStake{PublicKey: ckey(node).PublicKey(), Chains: argChains(a, "chains", []string{"0001"}), Value: argInt(a, "value", stakeN1),
				ServiceUrl: "https://" + strings.ToLower(node) + ".example:443"}, nil
		}
		m := &nodesTypes.MsgStake{PublicKey: ckey(node).PublicKey(), Chains: argChains(a, "chains", []string{"0001"}), Value: argInt(a, "value", stakeN1),
			ServiceUrl: "https://" + strings.ToLower(node) + ".example:443", Output: argAddr(a, "output", node)}
		if v, ok := a["url"]; ok {
			m.ServiceUrl = v
		}
		if d, ok := a["delegators"]; ok && d != "" {
			m.RewardDelegators = map[string]uint32{}
			for _, kv := range strings.Split(d, "+") {
				p := strings.Split(kv, ":")
				n, _ := strconv.Atoi(p[1])
				m.RewardDelegators[caddr(p[0]).String()] = uint32(n)
			}
		}
		return m, nil
	case "node_unstake":
		return &nodesTypes.MsgBeginUnstake{Address: argAddr(a, "node", t.Signer), Signer: argAddr(a, "as", t.Signer)}, nil
	case "node_unjail":
		return &nodesTypes.MsgUnjail{ValidatorAddr: argAddr(a, "node", t.Signer), Signer: argAddr(a, "as", t.Signer)}, nil
	case "app_stake":
		ap := a["app"]
		if ap == "" {
			ap = t.Signer
		}
		return &appsTypes.MsgStake{PubKey: ckey(ap).PublicKey(), Chains: argChains(a, "chains", []string{"0001"}), Value: argInt(a, "value", stakeP1)}, nil
	case "app_unstake":
		return &appsTypes.MsgBeginUnstake{Address: argAddr(a, "app", t.Signer)}, nil
	case "app_unjail":
		return &appsTypes.MsgUnjail{AppAddr: argAddr(a, "app", t.Signer)}, nil
	case "gov_param":
		return &govTypes.MsgChangeParam{FromAddress: argAddr(a, "from", t.Signer), ParamKey: a["key"], ParamVal: []byte(a["value"])}, nil
	case "gov_dao":
		return &govTypes.MsgDAOTransfer{FromAddress: argAddr(a, "from", t.Signer), ToAddress: argAddr(a, "to", "A2"), Amount: argInt(a, "amount", 1), Action: a["action"]}, nil
	case "gov_upgrade":
		h, _ := strconv.ParseInt(a["height"], 10, 64)
		var feats []string
		if a["features"] != "" {
			feats = strings.Split(a["features"], "+")
		}
		return &govTypes.MsgUpgrade{Address: argAddr(a, "from", t.Signer), Upgrade: govTypes.Upgrade{Height: h, Version: a["version"], Features: feats}}, nil
	case "claim", "proof":
		return buildRelayMsg(t)
	}
	return nil, fmt.Errorf("unknown tx kind %q", t.Kind)
}

var buildRelayMsg = func(t TxSpec) (sdk.ProtoMsg, error) { return nil, fmt.Errorf("relay messages not wired") }

// buildTx signs and encodes. Entropy is derived from the spec so that identical specs give identical bytes
// and different specs different bytes.
func (r *replica) buildTx(t TxSpec, height int64) ([]byte, error) {
	if t.Raw != "" {
		return hex.DecodeString(t.Raw)
	}
	curReplica, curBuildHeight = r, height
	defer func() { curReplica = nil }()
	return buildTxBytes(t, height)
}

func specEntropy(t TxSpec) int64 {
	if v, ok := t.Args["entropy"]; ok {
		i, _ := strconv.ParseInt(v, 10, 64)
		return i
	}
	s := t.String()
	var h int64 = 1469598103934665603
	for i := 0; i < len(s); i++ {
		h = (h ^ int64(s[i])) * 1099511628211
	}
	if h < 0 {
		h = -h
	}
	return h%1000000007 + 1
}

func buildTxBytes(t TxSpec, height int64) ([]byte, error) { return buildTxBytesOpt(t, height, true) }

func buildTxBytesOpt(t TxSpec, height int64, canonical bool) ([]byte, error) {
	msg, err := buildMsg(t)
	if err != nil {
		return nil, err
	}
	fee := sdk.NewCoins(sdk.NewCoin(sdk.DefaultStakeDenom, authTypes.DefaultFeeMultiplier.GetFee(msg)))
	if t.Fee != "" {
		switch {
		case t.Fee == "none":
			fee = sdk.Coins{}
		case strings.Contains(t.Fee, ","): // raw coin list "5upokt,3aaa" possibly unsorted / invalid on purpose
			fee = sdk.Coins{}
			for _, c := range strings.Split(t.Fee, ",") {
				i := 0
				for i < len(c) && (c[i] == '-' || (c[i] >= '0' && c[i] <= '9')) {
					i++
				}
				amt, _ := sdk.NewIntFromString(c[:i])
				fee = append(fee, sdk.Coin{Denom: c[i:], Amount: amt})
			}
		default:
			amt, _ := sdk.NewIntFromString(t.Fee)
			fee = sdk.Coins{sdk.Coin{Denom: sdk.DefaultStakeDenom, Amount: amt}}
		}
	}
	entropy := specEntropy(t) + height // the same menu item in another block is another transaction
	signChain := chainID
	signMsg := sdk.Msg(msg)
	signFee, signMemo, signEntropy := fee, t.Memo, entropy
	switch t.Mutate {
	case "sign-other-chain":
		signChain = "other-chain"
	case "sign-other-entropy":
		signEntropy = entropy + 1
	case "sign-other-fee":
		signFee = sdk.NewCoins(sdk.NewCoin(sdk.DefaultStakeDenom, sdk.NewInt(1)))
	case "sign-other-memo":
		signMemo = t.Memo + "x"
	case "sign-other-msg":
		signMsg = &nodesTypes.MsgSend{FromAddress: caddr(t.Signer), ToAddress: caddr("X"), Amount: sdk.NewInt(7)}
	}
	signBytes, err := authTypes.StdSignBytes(signChain, signEntropy, signFee, signMsg, signMemo)
	if err != nil {
		return nil, err
	}
	var sigBz []byte
	var pub pcrypto.PublicKey
	if strings.HasPrefix(t.Signer, "multi:") {
		// multi:<k1>+<k2>[!order|!missing|!dup|!empty]
		spec := strings.TrimPrefix(t.Signer, "multi:")
		variant := ""
		if i := strings.Index(spec, "!"); i >= 0 {
			variant = spec[i+1:]
			spec = spec[:i]
		}
		var names []string
		if spec != "" {
			names = strings.Split(spec, "+")
		}
		var pubs []pcrypto.PublicKey
		var sigs [][]byte
		for _, n := range names {
			pubs = append(pubs, ckey(n).PublicKey())
			s, _ := ckey(n).Sign(signBytes)
			sigs = append(sigs, s)
		}
		switch variant {
		case "order":
			if len(sigs) >= 2 {
				sigs[0], sigs[1] = sigs[1], sigs[0]
			}
		case "missing":
			sigs = sigs[:len(sigs)-1]
		case "dup":
			if len(sigs) >= 2 {
				sigs[1] = sigs[0]
			}
		case "empty-first": // right number of slots, the first member did not sign
			sigs[0] = []byte{}
		case "empty-last":
			sigs[len(sigs)-1] = []byte{}
		case "empty-all": // right number of slots, nobody signed
			for i := range sigs {
				sigs[i] = []byte{}
			}
		case "nil-all":
			for i := range sigs {
				sigs[i] = nil
			}
		case "stranger-last": // the last slot holds a valid signature of the same bytes by a key that is not a member
			sigs[len(sigs)-1], _ = ckey("X").Sign(signBytes)
		}
		pub = pcrypto.PublicKeyMultiSignature{PublicKeys: pubs}
		sigBz = pcrypto.MultiSignature{Sigs: sigs}.Marshal()
	} else {
		k := ckey(t.Signer)
		pub = k.PublicKey()
		sigBz, err = k.Sign(signBytes)
		if err != nil {
			return nil, err
		}
	}
	switch t.Mutate {
	case "sig-flip-first":
		sigBz[0] ^= 1
	case "sig-flip-middle":
		sigBz[len(sigBz)/2] ^= 1
	case "sig-flip-last":
		sigBz[len(sigBz)-1] ^= 1
	case "sig-empty":
		sigBz = []byte{}
	case "sig-by-stranger":
		sigBz, _ = ckey("X").Sign(signBytes)
	case "pubkey-of-stranger": // signature and key of X, message names someone else
		pub = ckey("X").PublicKey()
		sigBz, _ = ckey("X").Sign(signBytes)
	}
	tx := authTypes.NewTx(msg, fee, authTypes.StdSignature{PublicKey: pub, Signature: sigBz}, t.Memo, entropy)
	bz, err := auth.DefaultTxEncoder(chainCodec())(tx, height)
	if err != nil {
		return nil, err
	}
	// MsgStake carries a Go map that the generated encoder walks in map order: the bytes (and the tx hash)
	// of the same signed content vary from run to run. The harness needs one canonical choice: the
	// lexicographically smallest of many encodings (2-3 entries: every order appears with overwhelming probability).
	if ms, ok := msg.(*nodesTypes.MsgStake); ok && canonical && len(ms.RewardDelegators) > 1 {
		for i := 0; i < 400; i++ {
			b2, _ := auth.DefaultTxEncoder(chainCodec())(tx, height)
			if string(b2) < string(bz) {
				bz = b2
			}
		}
	}
	return bz, nil
}

// ---- probes (off-chain calls) ----

func (r *replica) runProbe(p Probe) string {
	defer func() {
		if x := recover(); x != nil {
			panic(fmt.Sprintf("probe %s panicked: %v", p, x))
		}
	}()
	switch p.Kind {
	case "checktx":
		bz, err := r.buildTx(*p.Tx, r.height+1)
		if err != nil {
			return "builderr:" + err.Error()
		}
		res := r.app.CheckTx(abci.RequestCheckTx{Tx: bz})
		return fmt.Sprintf("checktx code=%d", res.Code)
	case "simulate":
		bz, err := r.buildTx(*p.Tx, r.height+1)
		if err != nil {
			return "builderr:" + err.Error()
		}
		res := r.app.Query(abci.RequestQuery{Path: "/app/simulate", Data: bz, Height: r.height})
		return fmt.Sprintf("simulate code=%d len=%d", res.Code, len(res.Value))
	case "query":
		h, _ := strconv.ParseInt(p.Args["height"], 10, 64)
		var data []byte
		if d, ok := p.Args["data"]; ok {
			data = []byte(d)
		}
		if d, ok := p.Args["datahex"]; ok {
			data, _ = hex.DecodeString(d)
		}
		res := r.app.Query(abci.RequestQuery{Path: p.Args["path"], Data: data, Height: h, Prove: p.Args["prove"] == "true"})
		return fmt.Sprintf("query %s code=%d len=%d", p.Args["path"], res.Code, len(res.Value))
	}
	if f, ok := chainProbes[p.Kind]; ok {
		return f(r, p)
	}
	panic("unknown probe kind " + p.Kind)
}

var chainProbes = map[string]func(r *replica, p Probe) string{}

func mustJSON(v interface{}) string { b, _ := json.Marshal(v); return string(b) }
