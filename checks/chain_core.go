package checks

import (
	"bytes"
	"crypto/sha256"
	"encoding/hex"
	"encoding/json"
	"fmt"
	"math"
	"os"
	"runtime/debug"
	"sort"
	"strings"
	"time"

	"github.com/pokt-network/pocket-core/app"
	"github.com/pokt-network/pocket-core/codec"
	pcrypto "github.com/pokt-network/pocket-core/crypto"
	"github.com/pokt-network/pocket-core/store/rootmulti"
	sdk "github.com/pokt-network/pocket-core/types"
	"github.com/pokt-network/pocket-core/types/module"
	apps "github.com/pokt-network/pocket-core/x/apps"
	appsTypes "github.com/pokt-network/pocket-core/x/apps/types"
	"github.com/pokt-network/pocket-core/x/auth"
	"github.com/pokt-network/pocket-core/x/gov"
	govTypes "github.com/pokt-network/pocket-core/x/gov/types"
	"github.com/pokt-network/pocket-core/x/nodes"
	nodesTypes "github.com/pokt-network/pocket-core/x/nodes/types"
	pocket "github.com/pokt-network/pocket-core/x/pocketcore"
	pocketTypes "github.com/pokt-network/pocket-core/x/pocketcore/types"
	abci "github.com/tendermint/tendermint/abci/types"
	"github.com/tendermint/tendermint/crypto/ed25519"
	"github.com/tendermint/tendermint/libs/log"
	tmclient "github.com/tendermint/tendermint/rpc/client"
	ctypes "github.com/tendermint/tendermint/rpc/core/types"
	tmStore "github.com/tendermint/tendermint/store"
	tmtypes "github.com/tendermint/tendermint/types"
	dbm "github.com/tendermint/tm-db"
)

// ---------------------------------------------------------------------------------------------
// E-CHAIN: the real PocketCoreApp driven block by block without Tendermint (DESIGN §2.1 S-ABCI).
// One *replica* = one execution of one history; replicas run inside worker subprocesses.
// ---------------------------------------------------------------------------------------------

const chainID = "verif-chain"

var chainT0 = time.Date(2015, 1, 1, 0, 0, 0, 0, time.UTC)

const chainBlockInterval = 15 * time.Minute

var chainKeyCache = map[string]pcrypto.PrivateKey{}

// ckey: deterministic key by role name (N1..N3 nodes, O1 output address, P1,P2 apps, A1..A3 accounts,
// D dao owner, G acl owner, X stranger, R1,R2 reward delegators, C1 app client)
func ckey(name string) pcrypto.PrivateKey {
	if k, ok := chainKeyCache[name]; ok {
		return k
	}
	k := pcrypto.Ed25519PrivateKey(ed25519.GenPrivKeyFromSecret([]byte("verif-chain-key-" + name)))
	chainKeyCache[name] = k
	return k
}
func caddr(name string) sdk.Address { return sdk.Address(ckey(name).PublicKey().Address()) }

var chainRoleNames = []string{"N1", "N2", "N3", "O1", "P1", "P2", "A1", "A2", "A3", "D", "G", "X", "R1", "R2", "C1", "NEW"}

func roleOf(a sdk.Address) string {
	for _, n := range chainRoleNames {
		if bytes.Equal(caddr(n), a) {
			return n
		}
	}
	h := hex.EncodeToString(a)
	if len(a) != 20 {
		return "addr:" + h // an address of unusual length: the full bytes (it may extend or truncate a known one)
	}
	if len(h) > 8 {
		h = h[:8]
	}
	return h
}

// EnvCfg: everything that parametrises a replica besides its blocks.
type EnvCfg struct {
	BaseHeight       int64            `json:"base_height"`          // the chain starts right above this height (mainnet-era code paths); 0 = from height 1
	FeatureHeight    int64            `json:"feature_height"`       // activation height of every named feature
	FeatureAt        map[string]int64 `json:"feature_at,omitempty"` // per-feature activation heights overriding FeatureHeight
	BlocksPerSession int64            `json:"blocks_per_session"`
	ClaimWindow      int64            `json:"claim_window"`
	ClaimExpiration  int64            `json:"claim_expiration"`
	SessionNodeCount int64            `json:"session_node_count"`
	MaxValidators    int64            `json:"max_validators"`
	MaxApplications  int64            `json:"max_applications"`
	UnstakingBlocks  int64            `json:"unstaking_blocks"` // unstaking time in block intervals
	MinProofs        int64            `json:"min_proofs"`
	StateCache       bool             `json:"state_cache"`
	Genesis          string           `json:"genesis"`                 // named genesis variant
	Warmup           int              `json:"warmup"`                  // blocks executed before the explored history (the last one carries Setup)
	Setup            []TxSpec         `json:"setup,omitempty"`         // transactions of the last warm-up block; all must succeed
	Proposer         string           `json:"proposer,omitempty"`      // default block proposer (N1)
	LocalNode        string           `json:"local_node,omitempty"`    // servicer identity of this process (default N1)
	NoVoteDelay      bool             `json:"no_vote_delay,omitempty"` // votes come from the set as of the previous EndBlock (no two-block delay)
	BaseRelays       int64            `json:"base_relays,omitempty"`   // application BaseRelaysPerPOKT (default: the module default, 100)
	GenesisJSON      string           `json:"genesis_json,omitempty"`  // start from this (exported) application state instead of the built-in genesis
}

func defaultEnv() EnvCfg {
	return EnvCfg{BaseHeight: 80000, FeatureHeight: 70000, BlocksPerSession: 2, ClaimWindow: 2, ClaimExpiration: 3, SessionNodeCount: 1, MaxValidators: 2,
		MaxApplications: 2, UnstakingBlocks: 1, MinProofs: 5, Genesis: "std", Warmup: 1,
		// genesis is written with the legacy (pre non-custodial) encoding, which has no output address or reward
		// delegators, and an edit-stake below height 30040 drops the signing info: the two nodes are therefore staked
		// by ordinary transactions in the first block in which the current message formats are accepted
		// (the stake-weight parameters are reset to their mainnet defaults at the RSCAL activation height; the DAO
		// owner, who receives their ACL entries at that height, sets them back to small bins first)
		Setup: []TxSpec{
			{Kind: "node_stake", Signer: "N1", Args: map[string]string{"node": "N1", "value": "3000000", "output": "O1", "chains": "0001"}},
			{Kind: "node_stake", Signer: "N2", Args: map[string]string{"node": "N2", "value": "2000000", "output": "N2", "chains": "0001+0002", "delegators": "R1:10+R2:33"}},
		}}
}

var allFeatureKeys = []string{codec.UpgradeCodecUpdateKey, codec.ValidatorSplitUpdateKey, codec.NonCustodialUpdateKey, codec.EnforceMaxChainsUpdateKey,
	codec.TxCacheEnhancementKey, codec.MaxRelayProtKey, codec.ReplayBurnKey, codec.BlockSizeModifyKey, codec.RSCALKey, codec.VEDITKey,
	codec.OutputAddressEditKey, codec.ClearUnjailedValSessionKey, codec.PerChainRTTM, codec.AppTransferKey, codec.RewardDelegatorsKey}

func featureList(h int64) []string {
	var f []string
	for _, k := range allFeatureKeys {
		f = append(f, fmt.Sprintf("%s:%d", k, h))
	}
	sort.Strings(f)
	return f
}

// envFeatures: the upgrade schedule of an environment (FeatureHeight for every feature unless FeatureAt names another height).
func envFeatures(env EnvCfg) []string {
	var f []string
	for _, k := range allFeatureKeys {
		h := env.FeatureHeight
		if o, ok := env.FeatureAt[k]; ok {
			h = o
		}
		f = append(f, fmt.Sprintf("%s:%d", k, h))
	}
	sort.Strings(f)
	return f
}

// resetGlobals puts every process-global the application uses into the state of a freshly started node
// that already knows the upgrade schedule (as a node restarted from its DB would).
func resetGlobals(env EnvCfg) {
	codec.TestMode = 0
	codec.OldUpgradeHeight, codec.UpgradeHeight = envUpgradeHeights(env)
	codec.UpgradeFeatureMap = codec.SliceToMap(envFeatures(env))
	sdk.InitCtxCache(20)
	sdk.VbCCache = sdk.NewCache(20)
	cfg := sdk.DefaultTestingPocketConfig()
	pocketTypes.GlobalPocketConfig = cfg.PocketConfig
	pocketTypes.GlobalSessionCache = nil
	pocketTypes.GlobalEvidenceCache = nil
	pocketTypes.CleanPocketNodes()
	app.VerifResetCodec()
	app.GlobalConfig = cfg
}

// envUpgradeHeights: (codec upgrade height, latest gov upgrade height). High-altitude chains use the mainnet
// constants (codec upgrade 30024, validator split 45353 implied by the height); low chains upgrade at 1 and 2.
func envUpgradeHeights(env EnvCfg) (old, cur int64) {
	if env.BaseHeight > 0 {
		return codec.UpgradeCodecHeight, 60000
	}
	return 1, 2
}

func chainCodec() *codec.Codec { return app.Codec() }

type genesisInfo struct {
	state     app.GenesisState
	nodeStake map[string]int64
}

const (
	stakeN1  = 3000000
	stakeN2  = 2000000
	stakeP1  = 2000000
	balStd   = 10000000
	balSmall = 10001 // exactly fee+1 for a send
	daoFunds = 5000000
)

// buildGenesis: 3 node keys (N1 with output address O1, N2 with reward delegators, N3 unstaked but funded),
// 2 app keys (P1 staked, P2 funded), accounts, DAO, ACL. Supply equals the sum of balances.
func buildGenesis(env EnvCfg) app.GenesisState {
	cdc := chainCodec()
	gen := module.NewBasicManager(apps.AppModuleBasic{}, auth.AppModuleBasic{}, gov.AppModuleBasic{}, nodes.AppModuleBasic{}, pocket.AppModuleBasic{}).DefaultGenesis()
	// nodes
	var pos nodesTypes.GenesisState
	cdc.MustUnmarshalJSON(gen[nodesTypes.ModuleName], &pos)
	pos.Params.SessionBlockFrequency = env.BlocksPerSession
	pos.Params.UnstakingTime = time.Duration(env.UnstakingBlocks) * chainBlockInterval
	pos.Params.DowntimeJailDuration = chainBlockInterval
	pos.Params.SignedBlocksWindow = 10
	pos.Params.MinSignedPerWindow = sdk.NewDecWithPrec(9, 1)
	pos.Params.MaxJailedBlocks = 2
	pos.Params.MaxValidators = env.MaxValidators
	pos.Params.MaxEvidenceAge = 4 * chainBlockInterval
	pos.Params.ServicerStakeFloorMultiplier = 1000000
	pos.Params.ServicerStakeWeightCeiling = 2000000
	pos.Params.ServicerStakeWeightMultiplier = sdk.NewDec(1)
	pos.Params.ServicerStakeFloorMultiplierExponent = sdk.NewDec(1)
	if strings.Contains(env.Genesis, "legacy-nodes") {
		pos.Validators = append(pos.Validators,
			nodesTypes.Validator{Address: caddr("N1"), PublicKey: ckey("N1").PublicKey(), Status: sdk.Staked, Chains: []string{"0001"}, ServiceURL: "https://n1.example:443", StakedTokens: sdk.NewInt(stakeN1), OutputAddress: caddr("O1")},
			nodesTypes.Validator{Address: caddr("N2"), PublicKey: ckey("N2").PublicKey(), Status: sdk.Staked, Chains: []string{"0001", "0002"}, ServiceURL: "https://n2.example:443", StakedTokens: sdk.NewInt(stakeN2), OutputAddress: caddr("N2"),
				RewardDelegators: map[string]uint32{caddr("R1").String(): 10, caddr("R2").String(): 33}},
		)
	}
	if strings.Contains(env.Genesis, "custodial-nodes") {
		// nodes staked before the non-custodial upgrade: no output address on record
		pos.Validators = append(pos.Validators,
			nodesTypes.Validator{Address: caddr("N1"), PublicKey: ckey("N1").PublicKey(), Status: sdk.Staked, Chains: []string{"0001"}, ServiceURL: "https://n1.example:443", StakedTokens: sdk.NewInt(stakeN1)},
			nodesTypes.Validator{Address: caddr("N2"), PublicKey: ckey("N2").PublicKey(), Status: sdk.Staked, Chains: []string{"0001", "0002"}, ServiceURL: "https://n2.example:443", StakedTokens: sdk.NewInt(stakeN2)},
		)
	}
	gen[nodesTypes.ModuleName] = cdc.MustMarshalJSON(pos)
	// apps
	var ap appsTypes.GenesisState
	cdc.MustUnmarshalJSON(gen[appsTypes.ModuleName], &ap)
	ap.Params.UnstakingTime = time.Duration(env.UnstakingBlocks) * chainBlockInterval
	ap.Params.MaxApplications = env.MaxApplications
	ap.Params.MaxChains = 2
	if env.BaseRelays > 0 {
		ap.Params.BaseRelaysPerPOKT = env.BaseRelays
	}
	ap.Applications = append(ap.Applications, appsTypes.Application{Address: caddr("P1"), PublicKey: ckey("P1").PublicKey(), Status: sdk.Staked, Chains: []string{"0001"},
		StakedTokens: sdk.NewInt(stakeP1), MaxRelays: sdk.NewInt(stakeP1 / 1000000 * 100)})
	gen[appsTypes.ModuleName] = cdc.MustMarshalJSON(ap)
	// accounts: supply == sum of balances (module pool balances are inflated by the nodes/apps genesis themselves)
	var au auth.GenesisState
	cdc.MustUnmarshalJSON(gen[auth.ModuleName], &au)
	total := int64(0)
	add := func(name string, amt int64, withKey bool) {
		acc := &auth.BaseAccount{Address: caddr(name), Coins: sdk.NewCoins(sdk.NewCoin(sdk.DefaultStakeDenom, sdk.NewInt(amt)))}
		if withKey {
			acc.PubKey = ckey(name).PublicKey()
		}
		au.Accounts = append(au.Accounts, acc)
		total += amt
	}
	for _, n := range []string{"N1", "N2", "N3", "O1", "P1", "P2", "A1", "A2", "D", "G"} {
		add(n, balStd, true)
	}
	add("A3", balSmall, true)
	au.Supply = sdk.NewCoins(sdk.NewCoin(sdk.DefaultStakeDenom, sdk.NewInt(total)))
	if strings.Contains(env.Genesis, "default-supply") {
		// no explicit supply (InitGenesis derives it from the accounts) and accounts without coins among the funded ones
		au.Supply = nil
		for i := 0; i < 6; i++ {
			au.Accounts = append(au.Accounts, &auth.BaseAccount{Address: caddr(fmt.Sprintf("Z%d", i)), Coins: sdk.Coins{}})
		}
	}
	gen[auth.ModuleName] = cdc.MustMarshalJSON(au)
	// pocketcore
	var pc pocketTypes.GenesisState
	cdc.MustUnmarshalJSON(gen[pocketTypes.ModuleName], &pc)
	pc.Params.SessionNodeCount = env.SessionNodeCount
	pc.Params.ClaimSubmissionWindow = env.ClaimWindow
	pc.Params.ClaimExpiration = env.ClaimExpiration
	pc.Params.MinimumNumberOfProofs = env.MinProofs
	pc.Params.SupportedBlockchains = []string{"0001", "0002"}
	gen[pocketTypes.ModuleName] = cdc.MustMarshalJSON(pc)
	// gov
	var gv govTypes.GenesisState
	cdc.MustUnmarshalJSON(gen[govTypes.ModuleName], &gv)
	acl := govTypes.ACL{}
	for _, k := range chainACLKeys() {
		acl.SetOwner(k, caddr("G"))
	}
	gv.Params.ACL = acl
	gv.Params.DAOOwner = caddr("D")
	oldH, curH := envUpgradeHeights(env)
	gv.Params.Upgrade = govTypes.Upgrade{Height: curH, Version: "0.11.0", OldUpgradeHeight: oldH, Features: envFeatures(env)}
	gv.DAOTokens = sdk.NewInt(daoFunds)
	gen[govTypes.ModuleName] = cdc.MustMarshalJSON(gv)
	return gen
}

// chainACLKeys: the parameters a genesis ACL may name (the ones every module registers at genesis; the
// block-size / stake-weight / per-chain-multiplier keys are added by the gov module at their feature heights).
func chainACLKeys() []string {
	return []string{"application/ApplicationStakeMinimum", "application/AppUnstakingTime", "application/BaseRelaysPerPOKT", "application/MaxApplications",
		"application/MaximumChains", "application/ParticipationRateOn", "application/StabilityAdjustment", "auth/MaxMemoCharacters", "auth/TxSigLimit",
		"auth/FeeMultipliers", "gov/acl", "gov/daoOwner", "gov/upgrade", "pocketcore/ClaimExpiration", "pocketcore/ClaimSubmissionWindow",
		"pocketcore/MinimumNumberOfProofs", "pocketcore/ReplayAttackBurnMultiplier", "pocketcore/SessionNodeCount", "pocketcore/SupportedBlockchains",
		"pos/BlocksPerSession", "pos/DAOAllocation", "pos/DowntimeJailDuration", "pos/MaxEvidenceAge", "pos/MaximumChains", "pos/MaxJailedBlocks",
		"pos/MaxValidators", "pos/MinSignedPerWindow", "pos/ProposerPercentage", "pos/RelaysToTokensMultiplier", "pos/SignedBlocksWindow",
		"pos/SlashFractionDoubleSign", "pos/SlashFractionDowntime", "pos/StakeDenom", "pos/StakeMinimum", "pos/UnstakingTime"}
}

// ------------------------------------------------------------------------------------------------

// TxSpec: symbolic transaction; the worker builds and signs the real bytes with the fixed keys.
type TxSpec struct {
	Kind   string            `json:"kind"`
	Signer string            `json:"signer"`         // role whose key signs
	Args   map[string]string `json:"args,omitempty"` // kind-specific
	Fee    string            `json:"fee,omitempty"`  // default: the required fee of the message
	Memo   string            `json:"memo,omitempty"`
	Raw    string            `json:"raw,omitempty"` // hex: deliver these exact bytes (re-encodings)
	Mutate string            `json:"mutate,omitempty"`
}

func (t TxSpec) String() string {
	var ks []string
	for k := range t.Args {
		ks = append(ks, k)
	}
	sort.Strings(ks)
	var p []string
	for _, k := range ks {
		p = append(p, k+"="+t.Args[k])
	}
	s := fmt.Sprintf("%s[%s](%s)", t.Kind, t.Signer, strings.Join(p, ","))
	if t.Fee != "" {
		s += " fee=" + t.Fee
	}
	if t.Mutate != "" {
		s += " mutate=" + t.Mutate
	}
	if t.Raw != "" {
		s += " raw"
	}
	return s
}

// BlockSpec: one block = transactions + environment choices.
type BlockSpec struct {
	Txs       []TxSpec `json:"txs,omitempty"`
	Absent    []string `json:"absent,omitempty"`     // validators that did not sign the previous block
	Evidence  []string `json:"evidence,omitempty"`   // double-sign evidence against these validators ("N1" or "N1@h")
	TimeJump  int      `json:"time_jump,omitempty"`  // extra block intervals added to the block time
	Proposer  string   `json:"proposer,omitempty"`   // default N1
	HashSalt  string   `json:"hash_salt,omitempty"`  // changes only the block hash (consensus-irrelevant header field)
	Restart   bool     `json:"restart,omitempty"`    // the node restarts from its DB before this block
	OffChain  []Probe  `json:"off_chain,omitempty"`  // off-chain calls made before BeginBlock
	MidChain  []Probe  `json:"mid_chain,omitempty"`  // off-chain calls made between DeliverTx and EndBlock
	AfterTx0  []Probe  `json:"after_tx0,omitempty"`  // off-chain calls made right after the first DeliverTx of the block
	PostChain []Probe  `json:"post_chain,omitempty"` // off-chain calls made after Commit
}

func (b BlockSpec) String() string {
	var p []string
	for _, t := range b.Txs {
		p = append(p, t.String())
	}
	s := "block{" + strings.Join(p, "; ")
	if len(b.Absent) > 0 {
		s += fmt.Sprintf(" absent=%v", b.Absent)
	}
	if len(b.Evidence) > 0 {
		s += fmt.Sprintf(" evidence=%v", b.Evidence)
	}
	if b.TimeJump != 0 {
		s += fmt.Sprintf(" time+%d", b.TimeJump)
	}
	if b.Proposer != "" {
		s += " proposer=" + b.Proposer
	}
	if b.Restart {
		s += " RESTART"
	}
	for _, pr := range b.OffChain {
		s += " pre:" + pr.String()
	}
	for _, pr := range b.AfterTx0 {
		s += " tx0:" + pr.String()
	}
	for _, pr := range b.MidChain {
		s += " mid:" + pr.String()
	}
	for _, pr := range b.PostChain {
		s += " post:" + pr.String()
	}
	return s + "}"
}

// Probe: an off-chain call (query, CheckTx, simulate, dispatch, ...).
type Probe struct {
	Kind string            `json:"kind"`
	Args map[string]string `json:"args,omitempty"`
	Tx   *TxSpec           `json:"tx,omitempty"`
}

func (p Probe) String() string {
	s := p.Kind
	if len(p.Args) > 0 {
		var ks []string
		for k := range p.Args {
			ks = append(ks, k)
		}
		sort.Strings(ks)
		for _, k := range ks {
			s += " " + k + "=" + p.Args[k]
		}
	}
	if p.Tx != nil {
		s += " " + p.Tx.String()
	}
	return s
}

type Job struct {
	Env    EnvCfg      `json:"env"`
	Blocks []BlockSpec `json:"blocks"`
	Want   []string    `json:"want,omitempty"` // invariants / observations to evaluate on the final state
	Dump   bool        `json:"dump,omitempty"`
	// Args: parameters of shard evaluators (invariants that enumerate inputs on the final state)
	Args map[string]string `json:"args,omitempty"`
	// DeadlineSec overrides the pool's per-job deadline (long in-process explorations)
	DeadlineSec int `json:"deadline_sec,omitempty"`
}

type TxRes struct {
	Code      uint32 `json:"code"`
	Codespace string `json:"codespace,omitempty"`
	Data      string `json:"data,omitempty"`
	Log       string `json:"log,omitempty"`
	Signer    string `json:"signer,omitempty"`
	Hash      string `json:"hash,omitempty"`
	Raw       string `json:"raw,omitempty"` // the transaction bytes (only when the job asks for them)
}

type BlockRes struct {
	Height     int64    `json:"height"`
	Txs        []TxRes  `json:"txs,omitempty"`
	ValUpdates []string `json:"val_updates,omitempty"`
	AppHash    string   `json:"app_hash"`
	Probes     []string `json:"probes,omitempty"`
}

type Viol struct {
	Sig  string `json:"sig"`
	What string `json:"what"`
}

type JobResult struct {
	Blocks   []BlockRes             `json:"blocks"`
	StateKey string                 `json:"state_key"`
	Viols    []Viol                 `json:"viols,omitempty"`
	Obs      map[string]interface{} `json:"obs,omitempty"`
	Err      string                 `json:"err,omitempty"`
	Dump     map[string]string      `json:"dump,omitempty"`
	Errlog   string                 `json:"errlog,omitempty"`
	// AppPanic: the real application panicked while executing a block (BeginBlock..Commit)
	AppPanic string `json:"app_panic,omitempty"`
}

// bufLogger collects error-level log lines (os.Exit paths of the app log there first).
type bufLogger struct{ buf *bytes.Buffer }

func (l bufLogger) Debug(msg string, kv ...interface{}) {}
func (l bufLogger) Info(msg string, kv ...interface{})  {}
func (l bufLogger) Error(msg string, kv ...interface{}) {
	if l.buf.Len() < 8000 {
		fmt.Fprintf(l.buf, "E: %s %v\n", msg, kv)
	}
	// the application calls os.Exit right after logging on several paths: keep the reason visible to the master
	fmt.Fprintf(os.Stderr, "APP-ERROR: %s %v\n", msg, kv)
}
func (l bufLogger) With(kv ...interface{}) log.Logger { return l }

// replica: one running application instance plus what Tendermint would keep for it.
type replica struct {
	env      EnvCfg
	db       *dbm.MemDB
	bsdb     *dbm.MemDB
	txdb     *dbm.MemDB
	app      *app.PocketCoreApp
	bs       *tmStore.BlockStore
	txi      *sdk.TransactionIndexer
	logbuf   *bytes.Buffer
	height   int64
	time     time.Time
	lastID   tmtypes.BlockID
	appHash  []byte
	valset   map[string]int64           // consensus set folded from InitChain/EndBlock updates: hex(pubkey) -> power
	valHist  map[int64]map[string]int64 // the folded set as it stood after each block (evidence carries the power at the infraction height)
	valHist0 map[string]int64           // the set InitChain returned
	nowHdr   abci.Header                // header of the off-chain context of height nowHdrH (see ctxNow)
	nowHdrH  int64
	nowHdrOK bool
	valAddr  map[string]string
	results  []BlockRes
	genesis  app.GenesisState
	// successful plain sends addressed to a module account (by module name): "donations" nobody staked
	donated map[string]int64
	mon     map[string]map[string]interface{}
	args    map[string]string
	hosted  *pocketTypes.HostedBlockchains
	inBlock bool             // between BeginBlock and Commit of the real application
	digests map[int64]string // digest of the complete committed store content after each block
}

func newReplica(env EnvCfg) *replica {
	resetGlobals(env)
	r := &replica{env: env, db: dbm.NewMemDB(), bsdb: dbm.NewMemDB(), txdb: dbm.NewMemDB(), logbuf: &bytes.Buffer{}, time: chainT0, valset: map[string]int64{}, valAddr: map[string]string{}}
	if env.GenesisJSON != "" {
		var gs app.GenesisState
		if err := chainCodec().UnmarshalJSON([]byte(env.GenesisJSON), &gs); err != nil {
			panic("cannot parse genesis_json: " + err.Error())
		}
		r.genesis = gs
	} else {
		r.genesis = buildGenesis(env)
	}
	r.open()
	r.initChain()
	return r
}

func (r *replica) open() {
	app.GenState = r.genesis
	hosted := &pocketTypes.HostedBlockchains{M: map[string]pocketTypes.HostedBlockchain{"0001": {ID: "0001", URL: stubChain()}, "0002": {ID: "0002", URL: stubChain()}}}
	r.hosted = hosted
	r.setupLocalNode()
	r.app = app.NewPocketCoreApp(r.genesis, nil, stubTM{}, hosted, bufLogger{r.logbuf}, r.db, r.env.StateCache, 5000000)
	r.bs = tmStore.NewBlockStore(r.bsdb)
	r.txi = sdk.NewTransactionIndexer(r.txdb)
	r.app.SetBlockstore(r.bs)
	r.app.SetTxIndexer(r.txi)
	if r.env.BaseHeight > 0 && r.app.LastBlockHeight() == 0 {
		// fresh chain: continue from the base height without executing the blocks below it
		r.app.Store().(*rootmulti.Store).VerifSetBaseVersion(r.env.BaseHeight)
		r.height = r.env.BaseHeight
		r.time = chainT0.Add(time.Duration(r.env.BaseHeight) * chainBlockInterval)
		// a node that synced through the codec upgrade height keeps the proto override for the life of the
		// process; genesis (context height 0) is therefore written in the current encoding
		r.app.VerifCodec().SetUpgradeOverride(true)
	}
}

// stubTM: the pocketcore EndBlock starts a goroutine that asks the Tendermint node whether it is still
// syncing before auto-submitting claims/proofs; the harness node is always "catching up", so that off-chain
// activity never starts (claims/proofs are fed as explicit transactions by the checks).
type stubTM struct{ tmclient.Client }

func (stubTM) ConsensusReactorStatus() (*ctypes.ResultConsensusReactorStatus, error) {
	return &ctypes.ResultConsensusReactorStatus{IsCatchingUp: true}, nil
}

// restart: the process-level caches are dropped and the application is rebuilt on the same databases.
func (r *replica) restart() {
	resetGlobalsKeepCodecSchedule(r.env)
	r.open()
}

func resetGlobalsKeepCodecSchedule(env EnvCfg) {
	// a restarted node reads the schedule from its store (app.NewPocketCoreApp does that); start from defaults
	codec.TestMode = 0
	codec.OldUpgradeHeight = 0
	codec.UpgradeHeight = math.MaxInt64
	codec.UpgradeFeatureMap = map[string]int64{}
	sdk.InitCtxCache(20)
	sdk.VbCCache = sdk.NewCache(20)
	pocketTypes.GlobalSessionCache = nil
	pocketTypes.GlobalEvidenceCache = nil
	app.VerifResetCodec()
}

func (r *replica) initChain() {
	cp := &abci.ConsensusParams{Block: &abci.BlockParams{MaxBytes: 4000000, MaxGas: -1}, Evidence: &abci.EvidenceParams{MaxAge: 1000000}, Validator: &abci.ValidatorParams{PubKeyTypes: []string{"ed25519"}}}
	res := r.app.InitChain(abci.RequestInitChain{ChainId: chainID, Time: chainT0, ConsensusParams: cp})
	r.foldValUpdates(res.Validators)
	r.valHist0 = map[string]int64{}
	for k, v := range r.valset {
		r.valHist0[k] = v
	}
	// Parameters introduced by later upgrades are not written at genesis (height 0): on a real chain the
	// activation blocks wrote them. A chain that starts above those heights gets them here, with the genesis values.
	if r.env.BaseHeight > 0 && r.env.FeatureHeight <= r.env.BaseHeight {
		cdc := chainCodec()
		ctx := sdk.NewContext(r.app.Store(), abci.Header{ChainID: chainID, Height: r.env.BaseHeight}, false, bufLogger{r.logbuf})
		_, nk, _, _, pk := r.app.VerifKeepers()
		if raw, ok := r.genesis[nodesTypes.ModuleName]; ok {
			var pos nodesTypes.GenesisState
			cdc.MustUnmarshalJSON(raw, &pos)
			nk.SetParams(ctx, pos.Params)
		}
		if raw, ok := r.genesis[pocketTypes.ModuleName]; ok {
			var pg pocketTypes.GenesisState
			cdc.MustUnmarshalJSON(raw, &pg)
			pk.SetParams(ctx, pg.Params)
		}
	}
}

// votingSet: the validator set that signed block h-1 (see runBlock).
func (r *replica) votingSet(h int64) map[string]int64 {
	if r.env.NoVoteDelay {
		return r.valset
	}
	for k := h - 3; k >= r.env.BaseHeight; k-- {
		if hs, ok := r.valHist[k]; ok {
			return hs
		}
	}
	// the chain is younger than the delay: the explored history starts on a chain that is taken to have run with
	// its first recorded set (the one after the setup block) for a while
	first := int64(-1)
	for k := range r.valHist {
		if first < 0 || k < first {
			first = k
		}
	}
	if first >= 0 {
		return r.valHist[first]
	}
	if r.valHist0 != nil {
		return r.valHist0
	}
	return r.valset
}

func (r *replica) foldValUpdates(ups []abci.ValidatorUpdate) []string {
	var out []string
	for _, u := range ups {
		k := hex.EncodeToString(u.PubKey.Data)
		if u.Power == 0 {
			delete(r.valset, k)
		} else {
			r.valset[k] = u.Power
		}
		out = append(out, fmt.Sprintf("%s=%d", roleOfPub(u.PubKey.Data), u.Power))
	}
	sort.Strings(out)
	return out
}

func roleOfPub(pk []byte) string {
	for _, n := range chainRoleNames {
		if bytes.Equal(ckey(n).PublicKey().RawBytes(), pk) {
			return n
		}
	}
	return hex.EncodeToString(pk)[:8]
}

// runBlock executes one block the way Tendermint would drive it.
func (r *replica) runBlock(b BlockSpec) BlockRes {
	if b.Restart {
		// a node that cannot start again from its own databases (panic while the application is rebuilt) is a verdict
		// about the application, like a panic inside a block
		r.inBlock = true
		r.restart()
		r.inBlock = false
	}
	h := r.height + 1
	r.time = r.time.Add(time.Duration(1+b.TimeJump) * chainBlockInterval)
	br := BlockRes{Height: h}
	for _, p := range b.OffChain {
		br.Probes = append(br.Probes, "pre:"+r.runProbe(p))
	}
	// transactions
	var txs []tmtypes.Tx
	for _, t := range b.Txs {
		bz, err := r.buildTx(t, h)
		if err != nil {
			panic(fmt.Sprintf("harness: cannot build tx %s: %v", t, err))
		}
		txs = append(txs, bz)
	}
	proposer := b.Proposer
	if proposer == "" {
		proposer = r.env.Proposer
	}
	if proposer == "" {
		proposer = "N1"
	}
	// evidence
	var byz []abci.Evidence
	for _, e := range b.Evidence {
		name, eh := e, h-1
		if i := strings.Index(e, "@"); i >= 0 {
			name = e[:i]
			fmt.Sscanf(e[i+1:], "%d", &eh)
			if eh < 0 { // "@-k": k blocks before this one
				eh = h + eh
			}
		}
		pkey := hex.EncodeToString(ckey(name).PublicKey().RawBytes())
		power := r.valset[pkey]
		if hs, ok := r.valHist[eh]; ok {
			power = hs[pkey] // Tendermint reports the validator's power at the height of the infraction
		}
		byz = append(byz, abci.Evidence{Type: tmtypes.ABCIEvidenceTypeDuplicateVote, Validator: abci.Validator{Address: caddr(name), Power: power},
			Height: eh, Time: chainT0.Add(time.Duration(eh) * chainBlockInterval), TotalVotingPower: 10})
	}
	block := tmtypes.MakeBlock(h, txs, &tmtypes.Commit{}, nil)
	block.ChainID = chainID
	block.Time = r.time
	block.LastBlockID = r.lastID
	block.AppHash = r.appHash
	block.ProposerAddress = tmtypes.Address(caddr(proposer))
	block.ConsensusHash = []byte("verif-consensus-hash-32-bytes!!!")
	// a header without a validators hash has no hash at all (Header.Hash returns nil): every block carries one
	block.ValidatorsHash = []byte("verif-validators-hash-32-bytes!!")
	if b.HashSalt != "" {
		block.ValidatorsHash = []byte(b.HashSalt)
	}
	parts := block.MakePartSet(65536)
	r.bs.SaveBlock(block, parts, &tmtypes.Commit{})
	header := tmtypes.TM2PB.Header(&block.Header)
	// votes on the previous block, by the set that signed it: validator updates returned by EndBlock(H) take effect
	// at H+2 in Tendermint, so block h-1 was signed by the set folded through EndBlock(h-3). A node jailed or
	// unstaked in block H is therefore still listed (and still counted as present or absent) in blocks H+1 and H+2.
	voting := r.votingSet(h)
	var votes []abci.VoteInfo
	var vkeys []string
	for k := range voting {
		vkeys = append(vkeys, k)
	}
	sort.Strings(vkeys)
	for _, k := range vkeys {
		pk, _ := hex.DecodeString(k)
		role := roleOfPub(pk)
		signed := true
		for _, a := range b.Absent {
			if a == role {
				signed = false
			}
		}
		edpk, _ := pcrypto.NewPublicKeyBz(pk)
		votes = append(votes, abci.VoteInfo{Validator: abci.Validator{Address: edpk.Address(), Power: voting[k]}, SignedLastBlock: signed})
	}
	r.inBlock = true
	r.app.BeginBlock(abci.RequestBeginBlock{Hash: block.Hash(), Header: header, LastCommitInfo: abci.LastCommitInfo{Votes: votes}, ByzantineValidators: byz})
	batch := txindexBatch(len(txs))
	for i, tx := range txs {
		res := r.app.DeliverTx(abci.RequestDeliverTx{Tx: tx})
		tr := TxRes{Code: res.Code, Codespace: res.Codespace, Data: hex.EncodeToString(res.Data), Log: res.Log, Signer: roleOf(res.Signer), Hash: hex.EncodeToString(tx.Hash())}
		if r.args["return_raw"] == "1" {
			tr.Raw = hex.EncodeToString(tx)
		}
		br.Txs = append(br.Txs, tr)
		if i == 0 {
			for _, p := range b.AfterTx0 {
				br.Probes = append(br.Probes, "tx0:"+r.runProbe(p))
			}
		}
		_ = batch.Add(&tmtypes.TxResult{Height: h, Index: uint32(i), Tx: tx, Result: res})
		if t := b.Txs[i]; res.Code == 0 && t.Kind == "send" && strings.HasPrefix(t.Args["to"], "module:") {
			if r.donated == nil {
				r.donated = map[string]int64{}
			}
			amt, _ := sdk.NewIntFromString(t.Args["amount"])
			r.donated[strings.TrimPrefix(t.Args["to"], "module:")] += amt.Int64()
		}
	}
	for _, p := range b.MidChain {
		br.Probes = append(br.Probes, "mid:"+r.runProbe(p))
	}
	eb := r.app.EndBlock(abci.RequestEndBlock{Height: h})
	br.ValUpdates = r.foldValUpdates(eb.ValidatorUpdates)
	cm := r.app.Commit()
	r.inBlock = false
	_ = r.txi.AddBatch(batch)
	r.appHash = cm.Data
	br.AppHash = hex.EncodeToString(cm.Data)
	r.lastID = tmtypes.BlockID{Hash: block.Hash(), PartsHeader: parts.Header()}
	r.height = h
	if r.valHist == nil {
		r.valHist = map[int64]map[string]int64{}
	}
	snap := map[string]int64{}
	for k, v := range r.valset {
		snap[k] = v
	}
	r.valHist[h] = snap
	if r.digests == nil {
		r.digests = map[int64]string{}
	}
	r.digests[h] = r.storeDigest(r.app.Store())
	for _, p := range b.PostChain {
		br.Probes = append(br.Probes, "post:"+r.runProbe(p))
	}
	r.results = append(r.results, br)
	return br
}

// ctxNow: a context over the live (working == last committed) state, for read-only inspection.
func (r *replica) ctxNow() sdk.Context {
	// the context a running node hands to dispatch / relay / query code: PocketCoreApp.NewContext(last height), whose
	// header is the one PrevCtx rebuilds from the block store (the session block hash is a hash of that header, so a
	// differently assembled header would give the off-chain side other sessions than claim validation regenerates)
	if r.nowHdrOK && r.nowHdrH == r.height {
		return sdk.NewContext(r.app.Store(), r.nowHdr, false, bufLogger{r.logbuf}).WithBlockStore(r.bs).WithAppVersion(app.AppVersion)
	}
	if r.bs.LoadBlockMeta(r.height) != nil {
		if ctx, err := r.app.NewContext(r.height); err == nil {
			// (the header only depends on the height: evaluators that ask for a context thousands of times per state do
			// not pay for a lazily loaded store version each time)
			r.nowHdr, r.nowHdrH, r.nowHdrOK = ctx.BlockHeader(), r.height, true
			// same header; the multistore stays the application's own (the lazily loaded version view has no
			// transient stores, which evaluators that write parameters on a cache branch need)
			return sdk.NewContext(r.app.Store(), ctx.BlockHeader(), false, bufLogger{r.logbuf}).WithBlockStore(r.bs).WithAppVersion(app.AppVersion)
		}
	}
	hdr := abci.Header{ChainID: chainID, Height: r.height, Time: r.time}
	if meta := r.bs.LoadBlockMeta(r.height); meta != nil {
		// the header of the last executed block, as a node's own context for that height carries it
		hdr = tmtypes.TM2PB.Header(&meta.Header)
	}
	return sdk.NewContext(r.app.Store(), hdr, false, bufLogger{r.logbuf}).WithBlockStore(r.bs).WithAppVersion(app.AppVersion)
}

// storeDigest: SHA-256 over the raw content (keys and values) of every persistent substore of a multistore view.
func (r *replica) storeDigest(ms sdk.MultiStore) string {
	h := sha256.New()
	var names []string
	for n := range r.app.Keys {
		names = append(names, n)
	}
	sort.Strings(names)
	for _, n := range names {
		st := ms.GetKVStore(r.app.Keys[n])
		it, _ := st.Iterator(nil, nil)
		fmt.Fprintf(h, "[%s]", n)
		for ; it.Valid(); it.Next() {
			h.Write(it.Key())
			h.Write([]byte{0})
			h.Write(it.Value())
			h.Write([]byte{1})
		}
		it.Close()
	}
	return hex.EncodeToString(h.Sum(nil)[:12])
}

// stateKey: SHA-256 over the raw content of every IAVL substore (keys and values, not node versions),
// the height position inside session/claim cycles, the block time and the set of indexed tx hashes.
func (r *replica) stateKey() string {
	h := sha256.New()
	var names []string
	for n := range r.app.Keys {
		names = append(names, n)
	}
	sort.Strings(names)
	ms := r.app.Store()
	for _, n := range names {
		st := ms.GetKVStore(r.app.Keys[n])
		it, _ := st.Iterator(nil, nil)
		fmt.Fprintf(h, "[%s]", n)
		for ; it.Valid(); it.Next() {
			h.Write(it.Key())
			h.Write([]byte{0})
			h.Write(it.Value())
			h.Write([]byte{1})
		}
		it.Close()
		if os.Getenv("VERIF_DEBUG_KEY") != "" {
			fmt.Fprintf(os.Stderr, "STORE %s -> %x\n", n, h.Sum(nil)[:6])
		}
	}
	fmt.Fprintf(h, "|h=%d|t=%d", r.height, r.time.Unix())
	it, _ := r.txdb.Iterator(nil, nil)
	for ; it.Valid(); it.Next() {
		h.Write(it.Key())
	}
	it.Close()
	var vk []string
	for k, p := range r.valset {
		vk = append(vk, fmt.Sprintf("%s=%d", k, p))
	}
	sort.Strings(vk)
	fmt.Fprintf(h, "|vals=%v", vk)
	if os.Getenv("VERIF_DEBUG_KEY") != "" {
		it, _ := r.txdb.Iterator(nil, nil)
		for ; it.Valid(); it.Next() {
			fmt.Fprintf(os.Stderr, "TXDB %q\n", it.Key())
		}
		it.Close()
		fmt.Fprintf(os.Stderr, "VALS %v h=%d t=%d\n", vk, r.height, r.time.Unix())
	}
	return hex.EncodeToString(h.Sum(nil)[:16])
}

func (r *replica) dumpState() map[string]string {
	out := map[string]string{}
	ms := r.app.Store()
	for n, k := range r.app.Keys {
		it, _ := ms.GetKVStore(k).Iterator(nil, nil)
		for ; it.Valid(); it.Next() {
			out[n+"/"+hex.EncodeToString(it.Key())] = hex.EncodeToString(it.Value())
		}
		it.Close()
	}
	return out
}

// runJob executes a job inside a worker.
func runJob(job Job) (res JobResult) {
	var r *replica
	defer func() {
		if p := recover(); p != nil {
			res.Err = fmt.Sprintf("panic: %v\n%s", p, tail(string(debug.Stack()), 1800))
			if r != nil && r.inBlock && !strings.HasPrefix(fmt.Sprint(p), "harness:") {
				res.AppPanic = fmt.Sprintf("%v at height %d", p, r.height+1)
			}
		}
	}()
	r = newReplica(job.Env)
	r.args = job.Args
	for i := 0; i < job.Env.Warmup; i++ {
		b := BlockSpec{}
		if i == job.Env.Warmup-1 {
			b.Txs = job.Env.Setup
		}
		br := r.runBlock(b)
		for ti, tr := range br.Txs {
			if tr.Code != 0 {
				res.Err = fmt.Sprintf("setup transaction %s failed with code %d %s: %s", b.Txs[ti], tr.Code, tr.Codespace, tr.Log)
				return
			}
		}
	}
	r.results = nil
	res.Obs = map[string]interface{}{}
	var mons []string
	for _, w := range job.Want {
		if strings.HasPrefix(w, "mon:") {
			mons = append(mons, w)
		}
	}
	var prevSnap *chainSnap
	if len(mons) > 0 {
		prevSnap = r.snap()
	}
	for bi, b := range job.Blocks {
		br := r.runBlock(b)
		if len(mons) > 0 {
			cur := r.snap()
			for _, m := range mons {
				chainMonitors[m](r, &res, bi, b, br, prevSnap, cur)
			}
			prevSnap = cur
		}
	}
	res.Blocks = r.results
	res.StateKey = r.stateKey()
	for _, w := range job.Want {
		if strings.HasPrefix(w, "mon:") {
			continue
		}
		f, ok := chainInvariants[w]
		if !ok {
			res.Err = "unknown invariant " + w
			return
		}
		f(r, &res)
	}
	if job.Dump {
		res.Dump = r.dumpState()
	}
	res.Errlog = r.logbuf.String()
	return
}

// chainMonitors: evaluated after every explored block with the snapshots before and after it.
var chainMonitors = map[string]func(r *replica, res *JobResult, bi int, b BlockSpec, br BlockRes, prev, cur *chainSnap){}

// chainSnap: decoded view of the consensus state used by monitors.
type chainSnap struct {
	Height int64
	Time   int64
	Bal    map[string]int64
	Nodes  map[string]map[string]string
	Apps   map[string]map[string]string
	Supply int64
	mon    map[string]interface{}
}

// chainInvariants: name -> evaluator on the final state of a replica (filled by the per-property files).
var chainInvariants = map[string]func(r *replica, res *JobResult){}

func jobJSON(j Job) string { b, _ := json.Marshal(j); return string(b) }
