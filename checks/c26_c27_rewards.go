package checks

import (
	"fmt"
	"math"
	"math/big"
	"sort"
	"strconv"
	"strings"
	"time"

	sdk "github.com/pokt-network/pocket-core/types"
	"github.com/pokt-network/pocket-core/x/auth"
	govTypes "github.com/pokt-network/pocket-core/x/gov/types"
	nodesKeeper "github.com/pokt-network/pocket-core/x/nodes/keeper"
	nodesTypes "github.com/pokt-network/pocket-core/x/nodes/types"
	abci "github.com/tendermint/tendermint/abci/types"

	"verif/internal/ev"
)

// withWatchdog runs f; false when it has not returned within d (the goroutine is abandoned).
func withWatchdog(d time.Duration, f func()) (ok bool, pan interface{}) {
	ch := make(chan interface{}, 1)
	go func() {
		defer func() { ch <- recover() }()
		f()
	}()
	select {
	case p := <-ch:
		return true, p
	case <-time.After(d):
		return false, nil
	}
}

type swParams struct {
	Floor, Ceiling int64
	WM             string // weight multiplier (decimal)
	Exp            int    // exponent in 1/100
	RTTM           int64
}

func (p swParams) String() string {
	return fmt.Sprintf("bin size %d, ceiling %d, weight multiplier %s, exponent %d/100, relays-to-tokens multiplier %d", p.Floor, p.Ceiling, p.WM, p.Exp, p.RTTM)
}

func setStakeWeightParams(ctx sdk.Ctx, nk nodesKeeper.Keeper, p swParams) {
	np := nk.GetParams(ctx)
	np.ServicerStakeFloorMultiplier = p.Floor
	np.ServicerStakeWeightCeiling = p.Ceiling
	np.ServicerStakeWeightMultiplier = sdk.MustNewDecFromStr(p.WM)
	np.ServicerStakeFloorMultiplierExponent = sdk.NewDecWithPrec(int64(p.Exp), 2)
	np.RelaysToTokensMultiplier = p.RTTM
	np.StakeMinimum = 0
	nk.SetParams(ctx, np)
}

func totalSupply(ctx sdk.Ctx, ak auth.Keeper) sdk.BigInt {
	return ak.GetSupply(ctx).GetTotal().AmountOf(sdk.DefaultStakeDenom)
}

func init() {
	// ---------------------------------------------------------------- C27
	chainInvariants["c27:weights"] = func(r *replica, res *JobResult) {
		acc := newEvalAcc(res)
		defer acc.finish()
		lo, hi := int(atoi(r.args["exp_lo"])), int(atoi(r.args["exp_hi"]))
		thorough := r.args["tier"] == "thorough"
		ak, nk, _, _, _ := r.app.VerifKeepers()
		base := r.ctxNow()
		type shape struct {
			F, C int64
		}
		shapes := []shape{{1, 4}, {1000, 4000}, {1000, 4500}, {15000000000, 60000000000}, {7, 7}, {1, 12}}
		wms := []string{"1", "1.5", "0.25"}
		rttms := []int64{1, 1000}
		relays := []int64{0, 1, 2, 1000, 1000000000}
		if thorough {
			shapes = append(shapes, shape{1, 64}, shape{3, 200}, shape{1000000, 3000000}, shape{1, 1})
			wms = append(wms, "4", "0.01")
			rttms = append(rttms, 10000, 3)
			relays = append(relays, 3, 77, 99999)
		}
		n1 := caddr("N1")
		for _, sh := range shapes {
			bins := sh.C / sh.F
			var stakes []int64
			for b := int64(0); b <= bins+2; b++ {
				for _, off := range []int64{-1, 0, 1, sh.F / 2} {
					s := b*sh.F + off
					if s >= 0 {
						stakes = append(stakes, s)
					}
				}
			}
			stakes = append(stakes, sh.C, sh.C+1, sh.C*3)
			sort.Slice(stakes, func(i, j int) bool { return stakes[i] < stakes[j] })
			u := stakes[:0]
			for i, s := range stakes {
				if i == 0 || s != stakes[i-1] {
					u = append(u, s)
				}
			}
			stakes = u
			for _, wm := range wms {
				for e := lo; e <= hi; e++ {
					for _, m := range rttms {
						p := swParams{sh.F, sh.C, wm, e, m}
						ctx, _ := base.CacheContext()
						setStakeWeightParams(ctx, nk, p)
						_ = ak.MintCoins(ctx, nodesTypes.StakedPoolName, sdk.NewCoins(sdk.NewCoin(sdk.DefaultStakeDenom, sdk.NewInt(math.MaxInt64/4))))
						// rewards
						tab := make([][]sdk.BigInt, len(relays))
						for ri, rl := range relays {
							tab[ri] = make([]sdk.BigInt, len(stakes))
							for si, s := range stakes {
								var node, fees sdk.BigInt
								ok, pan := withWatchdog(30*time.Second, func() {
									node, fees = nk.CalculateRelayReward(ctx, "", sdk.NewInt(rl), sdk.NewInt(s))
								})
								acc.evals++
								in := fmt.Sprintf("reward for %d relays at stake %d (%s)", rl, s, p)
								if !ok {
									acc.viol("reward/does-not-terminate", in+": no result within 30 s")
									return
								}
								if pan != nil {
									acc.viol("reward/panics", in+fmt.Sprintf(": panic %v", pan))
									tab[ri][si] = sdk.ZeroInt()
									continue
								}
								if node.IsNegative() || fees.IsNegative() {
									acc.viol("reward/negative", in+fmt.Sprintf(": node part %s, fee part %s", node, fees))
								}
								tot := node.Add(fees)
								tab[ri][si] = tot
								if tot.IsZero() {
									acc.outcome("reward-zero")
								} else {
									acc.outcome("reward-positive")
								}
								if si > 0 && tot.LT(tab[ri][si-1]) {
									acc.viol("reward/decreases-with-stake", in+fmt.Sprintf(": %s, but %s at the lower stake %d", tot, tab[ri][si-1], stakes[si-1]))
								}
								if ri > 0 && tot.LT(tab[ri-1][si]) {
									acc.viol("reward/decreases-with-relays", in+fmt.Sprintf(": %s, but %s for %d relays", tot, tab[ri-1][si], relays[ri-1]))
								}
							}
							var atCeil sdk.BigInt
							for si, s := range stakes {
								if s == sh.C {
									atCeil = tab[ri][si]
								}
								if s > sh.C && !tab[ri][si].Equal(atCeil) {
									acc.viol("reward/changes-beyond-ceiling", fmt.Sprintf("reward for %d relays (%s): %s at the ceiling, %s at stake %d", rl, p, atCeil, tab[ri][si], s))
								}
							}
						}
						// challenge burns, observed as the change of total supply
						for _, ch := range []int64{1, 3} {
							prev := sdk.ZeroInt()
							prevStake := int64(-1)
							var atCeil sdk.BigInt
							for _, s := range stakes {
								if s == 0 {
									continue
								}
								c2, _ := ctx.CacheContext()
								v, found := nk.GetValidator(c2, n1)
								if !found {
									res.Err = "setup: N1 is not a validator"
									return
								}
								v.StakedTokens = sdk.NewInt(s)
								nk.SetValidator(c2, v)
								before := totalSupply(c2, ak)
								ok, pan := withWatchdog(30*time.Second, func() { nk.BurnForChallenge(c2, sdk.NewInt(ch), n1) })
								acc.evals++
								in := fmt.Sprintf("burn for %d challenges at stake %d (%s)", ch, s, p)
								if !ok {
									acc.viol("burn/does-not-terminate", in+": no result within 30 s")
									return
								}
								if pan != nil {
									acc.viol("burn/panics", in+fmt.Sprintf(": panic %v", pan))
									continue
								}
								burn := before.Sub(totalSupply(c2, ak))
								if burn.IsNegative() {
									acc.viol("burn/negative", in+fmt.Sprintf(": supply grew by %s", burn.Neg()))
								}
								capped := !burn.LT(sdk.NewInt(s))
								if capped {
									acc.outcome("burn-capped-by-stake")
								} else if burn.IsZero() {
									acc.outcome("burn-zero")
								} else {
									acc.outcome("burn-positive")
								}
								// a stake beyond the start of the ceiling plateau that is not a multiple of the bin size
								class := ""
								if s > sh.C-sh.C%sh.F && s%sh.F != 0 {
									class = "/stake-beyond-ceiling-off-bin-boundary"
								}
								if prevStake >= 0 && burn.LT(prev) {
									acc.viol("burn/decreases-with-stake"+class, in+fmt.Sprintf(": %s burned, but %s at the lower stake %d", burn, prev, prevStake))
								}
								if s == sh.C {
									atCeil = burn
								}
								if s > sh.C && !capped && atCeil.BigInt() != nil && !atCeil.Equal(sdk.NewInt(sh.C)) && !burn.Equal(atCeil) {
									acc.viol("burn/changes-beyond-ceiling"+class, in+fmt.Sprintf(": %s burned, %s at the ceiling", burn, atCeil))
								}
								prev, prevStake = burn, s
							}
						}
					}
				}
			}
		}
	}

	// ---------------------------------------------------------------- C26
	chainInvariants["c26:rewards"] = func(r *replica, res *JobResult) {
		acc := newEvalAcc(res)
		defer acc.finish()
		shard, nshards := int(atoi(r.args["shard"])), int(atoi(r.args["shards"]))
		thorough := r.args["tier"] == "thorough"
		ak, nk, _, _, _ := r.app.VerifKeepers()
		base := r.ctxNow()
		roles := []string{"N1", "N2", "N3", "O1", "P1", "A1", "A2", "A3", "R1", "R2", "C1", "D", "G", "X"}
		feeAddr := ak.GetModuleAccount(base, auth.FeeCollectorName).GetAddress()
		daoAddr := ak.GetModuleAccount(base, govTypes.DAOAccountName).GetAddress()
		poolAddr := ak.GetModuleAccount(base, nodesTypes.StakedPoolName).GetAddress()
		watch := map[string]sdk.Address{"fee-collector": feeAddr, "dao": daoAddr, "node-pool": poolAddr}
		for _, ro := range roles {
			watch[ro] = caddr(ro)
		}
		for i := 0; i < 25; i++ {
			watch[fmt.Sprintf("d%02d", i)] = sdk.Address(ckey(fmt.Sprintf("c26-delegator-%d", i)).PublicKey().Address())
		}
		bal := func(ctx sdk.Ctx) map[string]sdk.BigInt {
			m := map[string]sdk.BigInt{}
			for n, a := range watch {
				m[n] = ak.GetCoins(ctx, a).AmountOf(sdk.DefaultStakeDenom)
			}
			return m
		}
		nameOf := func(a sdk.Address) string {
			for n, w := range watch {
				if w.Equals(a) {
					return n
				}
			}
			return a.String()
		}
		many := map[string]uint32{}
		for i := 0; i < 25; i++ {
			many[watch[fmt.Sprintf("d%02d", i)].String()] = 4
		}
		R1, R2, A1, O1, N2 := caddr("R1").String(), caddr("R2").String(), caddr("A1").String(), caddr("O1").String(), caddr("N2").String()
		delegs := []map[string]uint32{nil, {R1: 1}, {R1: 100}, {R1: 50, R2: 50}, {R1: 33, R2: 33, A1: 33}, {R1: 99, R2: 1}, {R1: 10, R2: 33}, {O1: 20}, {N2: 5, R1: 7}, many}
		allocs := [][2]int64{}
		for _, d := range []int64{0, 1, 10, 33, 50, 99, 100} {
			for _, p := range []int64{0, 1, 5, 33, 50, 90} {
				if d+p <= 100 {
					allocs = append(allocs, [2]int64{d, p})
				}
			}
		}
		if thorough {
			allocs = allocs[:0]
			for d := int64(0); d <= 100; d++ {
				for p := int64(0); d+p <= 100; p++ {
					if d%7 == 0 || p%11 == 0 || d+p == 100 || d < 3 || p < 3 {
						allocs = append(allocs, [2]int64{d, p})
					}
				}
			}
		}
		relays := []int64{0, 1, 2, 3, 7, 99, 100, 101, 12345, 1000000000}
		type sw struct {
			exp int
			wm  string
		}
		sws := []sw{{100, "1"}, {0, "1"}, {100, "4"}, {50, "1.5"}}
		rttms := []int64{1, 7, 1000, 10000}
		if thorough {
			relays = append(relays, 4, 5, 6, 8, 9, 10, 11, 33, 50, 1001, 99999, 7777777)
			rttms = append(rttms, 3, 123)
		}
		type nodeCase struct {
			node   string
			output string
		}
		nodes := []nodeCase{{"N1", "O1"}, {"N2", "N2"}}
		idx := 0
		for _, al := range allocs {
			idx++
			if idx%nshards != shard {
				continue
			}
			for _, s := range sws {
				for _, m := range rttms {
					p := swParams{1000000, 3000000, s.wm, s.exp, m}
					pctx, _ := base.CacheContext()
					setStakeWeightParams(pctx, nk, p)
					np := nk.GetParams(pctx)
					np.DAOAllocation, np.ProposerAllocation = al[0], al[1]
					np.RelaysToTokensMultiplierMap = map[string]int64{"0002": 3}
					nk.SetParams(pctx, np)
					cost := nk.GetRewardCost(pctx)
					for _, nc := range nodes {
						for di, dg := range delegs {
							for _, chain := range []string{"0001", "0002"} {
								if chain == "0002" && (di%3 != 0) {
									continue
								}
								for _, rl := range relays {
									ctx, _ := pctx.CacheContext()
									v, _ := nk.GetValidator(ctx, caddr(nc.node))
									v.RewardDelegators = dg
									nk.SetValidator(ctx, v)
									stake := v.StakedTokens
									before, supBefore := bal(ctx), totalSupply(ctx, ak)
									var nodeR, fees sdk.BigInt
									ok, pan := withWatchdog(30*time.Second, func() {
										nodeR, fees = nk.CalculateRelayReward(ctx, chain, sdk.NewInt(rl), stake)
										nk.RewardForRelaysPerChain(ctx, chain, sdk.NewInt(rl), caddr(nc.node))
									})
									acc.evals++
									in := fmt.Sprintf("%d relays on chain %s by %s (stake %s, output %s, delegators %v), DAO/proposer allocation %d/%d, %s", rl, chain, nc.node, stake, nc.output, delegText(dg, nameOf), al[0], al[1], p)
									if !ok || pan != nil {
										acc.viol("reward/panics-or-hangs", in+fmt.Sprintf(": %v", pan))
										continue
									}
									// reference: exact for exponents 0 and 1, float-bounded otherwise
									mult := m
									if chain == "0002" {
										mult = 3
									}
									bin := new(big.Rat).SetInt64(stake.Int64() / p.Floor)
									if b := p.Ceiling / p.Floor; stake.Int64()/p.Floor > b {
										bin.SetInt64(b)
									}
									wm, _ := new(big.Rat).SetString(s.wm)
									coinsGot := nodeR.Add(fees)
									if s.exp == 0 || s.exp == 100 {
										w := new(big.Rat).SetInt64(1)
										if s.exp == 100 {
											w = bin
										}
										x := new(big.Rat).Mul(new(big.Rat).SetInt64(mult*rl), new(big.Rat).Quo(w, wm))
										want := new(big.Int).Quo(x.Num(), x.Denom())
										if coinsGot.BigInt().Cmp(want) != 0 {
											acc.viol("reward/amount", in+fmt.Sprintf(": computed reward %s, expected floor(multiplier x relays x weight) = %s", coinsGot, want))
										}
									} else {
										bf, _ := bin.Float64()
										wf, _ := wm.Float64()
										want := float64(mult) * float64(rl) * math.Pow(bf, float64(s.exp)/100) / wf
										got, _ := new(big.Float).SetInt(coinsGot.BigInt()).Float64()
										if math.Abs(got-want) > 1+want*1e-9 {
											acc.viol("reward/amount", in+fmt.Sprintf(": computed reward %s, expected about %.3f", coinsGot, want))
										}
									}
									wantFees := new(big.Int).Quo(new(big.Int).Mul(coinsGot.BigInt(), big.NewInt(al[0]+al[1])), big.NewInt(100))
									if fees.BigInt().Cmp(wantFees) != 0 {
										acc.viol("reward/fee-part", in+fmt.Sprintf(": fee collector part %s of reward %s, expected %s", fees, coinsGot, wantFees))
									}
									minted := totalSupply(ctx, ak).Sub(supBefore)
									if !minted.Equal(coinsGot) {
										acc.viol("reward/minted-differs-from-computed", in+fmt.Sprintf(": supply grew by %s, computed reward %s (node %s + fees %s)", minted, coinsGot, nodeR, fees))
									}
									// expected recipients
									exp := map[string]*big.Int{}
									add := func(n string, x *big.Int) {
										if exp[n] == nil {
											exp[n] = new(big.Int)
										}
										exp[n].Add(exp[n], x)
									}
									add("fee-collector", fees.BigInt())
									c := cost.BigInt()
									if nodeR.BigInt().Cmp(c) < 0 {
										c = nodeR.BigInt()
									}
									add(nc.node, c)
									rest := new(big.Int).Sub(nodeR.BigInt(), c)
									if rest.Sign() > 0 {
										left := new(big.Int).Set(rest)
										for a, sh := range dg {
											ad, _ := sdk.AddressFromHex(a)
											part := new(big.Int).Quo(new(big.Int).Mul(rest, big.NewInt(int64(sh))), big.NewInt(100))
											add(nameOf(ad), part)
											left.Sub(left, part)
										}
										add(nc.output, left)
									}
									after := bal(ctx)
									sum := new(big.Int)
									for n := range watch {
										d := after[n].Sub(before[n]).BigInt()
										sum.Add(sum, d)
										e := exp[n]
										if e == nil {
											e = new(big.Int)
										}
										if d.Cmp(e) != 0 {
											acc.viol("reward/recipient-amount", in+fmt.Sprintf(": %s received %s, expected %s (node part %s, reward cost %s)", n, d, e, nodeR, cost))
										}
									}
									if sum.Cmp(minted.BigInt()) != 0 {
										acc.viol("reward/coins-unaccounted", in+fmt.Sprintf(": supply grew by %s but the watched balances grew by %s", minted, sum))
									}
									switch {
									case coinsGot.IsZero():
										acc.outcome("reward-zero")
									case rest.Sign() == 0:
										acc.outcome("reward-consumed-by-cost")
									default:
										acc.outcome("reward-split")
									}
								}
							}
						}
					}
				}
			}
			// collected fees: DAO / proposer split at the next block start
			for _, extra := range []int64{1, 2, 3, 10, 99, 100, 101, 9999, 1234567} {
				for _, prop := range nodes {
					for _, dg := range delegs {
						ctx, _ := base.CacheContext()
						np := nk.GetParams(ctx)
						np.DAOAllocation, np.ProposerAllocation = al[0], al[1]
						nk.SetParams(ctx, np)
						v, _ := nk.GetValidator(ctx, caddr(prop.node))
						v.RewardDelegators = dg
						nk.SetValidator(ctx, v)
						nk.SetPreviousProposer(ctx, caddr(prop.node))
						// empty the collector first so that small totals are covered too
						if h := ak.GetCoins(ctx, feeAddr); !h.IsZero() {
							_ = ak.SendCoins(ctx, feeAddr, caddr("A1"), h)
						}
						have := ak.GetCoins(ctx, feeAddr).AmountOf(sdk.DefaultStakeDenom)
						if err := ak.SendCoins(ctx, caddr("A1"), feeAddr, sdk.NewCoins(sdk.NewCoin(sdk.DefaultStakeDenom, sdk.NewInt(extra)))); err != nil {
							res.Err = "cannot fund the fee collector: " + err.Error()
							return
						}
						x := have.Int64() + extra
						before, supBefore := bal(ctx), totalSupply(ctx, ak)
						in := fmt.Sprintf("%d collected fees, DAO/proposer allocation %d/%d, proposer %s (output %s, delegators %v)", x, al[0], al[1], prop.node, prop.output, delegText(dg, nameOf))
						ok, pan := withWatchdog(30*time.Second, func() {
							nodesKeeper.BeginBlocker(ctx, abci.RequestBeginBlock{Header: abci.Header{Height: ctx.BlockHeight(), ProposerAddress: caddr("N1")}}, nk)
						})
						acc.evals++
						if !ok || pan != nil {
							cl := "/other"
							if al[0]+al[1] == 0 {
								cl = "/both-allocations-zero"
							}
							acc.viol("fees/split-panics"+cl, in+fmt.Sprintf(": %v", pan))
							continue
						}
						after := bal(ctx)
						if !totalSupply(ctx, ak).Equal(supBefore) {
							acc.viol("fees/supply-changed", in)
						}
						d := func(n string) *big.Int { return after[n].Sub(before[n]).BigInt() }
						if d("fee-collector").Cmp(big.NewInt(-x)) != 0 {
							acc.viol("fees/not-fully-distributed", in+fmt.Sprintf(": fee collector changed by %s", d("fee-collector")))
						}
						daoCut := d("dao")
						exact := new(big.Rat)
						if al[0]+al[1] > 0 {
							exact.SetFrac(big.NewInt(x*al[0]), big.NewInt(al[0]+al[1]))
						}
						lo := new(big.Int).Quo(exact.Num(), exact.Denom())
						if daoCut.Sign() < 0 || daoCut.Cmp(big.NewInt(x)) > 0 {
							acc.viol("fees/dao-part", in+fmt.Sprintf(": DAO received %s", daoCut))
						} else if al[0]+al[1] == 0 {
							// no ratio defined: only the sum is checked (below)
						} else if daoCut.Cmp(lo) > 0 || new(big.Int).Sub(lo, daoCut).Cmp(big.NewInt(1)) > 0 {
							acc.viol("fees/dao-part", in+fmt.Sprintf(": DAO received %s, exact share %s", daoCut, exact.FloatString(3)))
						}
						propCut := new(big.Int).Sub(big.NewInt(x), daoCut)
						exp := map[string]*big.Int{"dao": daoCut, "fee-collector": big.NewInt(-x)}
						add := func(n string, y *big.Int) {
							if exp[n] == nil {
								exp[n] = new(big.Int)
							}
							exp[n] = new(big.Int).Add(exp[n], y)
						}
						if propCut.Sign() > 0 {
							left := new(big.Int).Set(propCut)
							for a, sh := range dg {
								ad, _ := sdk.AddressFromHex(a)
								part := new(big.Int).Quo(new(big.Int).Mul(propCut, big.NewInt(int64(sh))), big.NewInt(100))
								add(nameOf(ad), part)
								left.Sub(left, part)
							}
							add(prop.output, left)
						}
						for n := range watch {
							e := exp[n]
							if e == nil {
								e = new(big.Int)
							}
							if d(n).Cmp(e) != 0 {
								acc.viol("fees/recipient-amount", in+fmt.Sprintf(": %s changed by %s, expected %s (DAO part %s, proposer part %s)", n, d(n), e, daoCut, propCut))
							}
						}
						acc.outcome("fees-split")
					}
				}
			}
		}
	}

	// on-chain layer: the fees collected in one block are distributed at the start of the next one
	chainMonitors["mon:feesplit"] = func(r *replica, res *JobResult, bi int, b BlockSpec, br BlockRes, prev, cur *chainSnap) {
		st := r.monState("feesplit")
		lastProp, _ := st["proposer"].(string)
		if lastProp == "" {
			lastProp = "N1"
		}
		thisProp := b.Proposer
		if thisProp == "" {
			thisProp = "N1"
		}
		st["proposer"] = thisProp
		_, nk, _, _, _ := r.app.VerifKeepers()
		pctx, err := r.ctxNow().PrevCtx(prev.Height)
		if err != nil {
			return
		}
		dao, prop := nk.DAOAllocation(pctx), nk.ProposerAllocation(pctx)
		fees := prev.Bal["module:fee_collector"]
		d := func(n string) int64 { return cur.Bal[n] - prev.Bal[n] }
		desc := fmt.Sprintf("height %d: %d collected in the previous block, DAO/proposer allocation %d/%d, previous proposer %s", cur.Height, fees, dao, prop, lastProp)
		daoCut := d("module:dao")
		if dao+prop > 0 {
			exact := new(big.Int).Quo(big.NewInt(fees*dao), big.NewInt(dao+prop)).Int64()
			if daoCut > exact || daoCut < exact-1 {
				res.viol("feesplit/dao-part", desc+fmt.Sprintf(": DAO balance changed by %d, exact share %d", daoCut, exact))
			}
		}
		propCut := fees - daoCut
		want := map[string]int64{"O1": 0, "N2": 0, "R1": 0, "R2": 0}
		if lastProp == "N1" {
			want["O1"] = propCut
		} else {
			want["R1"] = propCut * 10 / 100
			want["R2"] = propCut * 33 / 100
			want["N2"] = propCut - want["R1"] - want["R2"]
		}
		for n, w := range want {
			if d(n) != w {
				res.viol("feesplit/recipient-amount", desc+fmt.Sprintf(": %s changed by %d, expected %d (DAO part %d)", n, d(n), w, daoCut))
			}
		}
		var paid int64
		for i, t := range b.Txs {
			if i < len(br.Txs) && (br.Txs[i].Code == 0 || br.Txs[i].Codespace != "sdk") {
				_ = t
				paid += 10000
			}
		}
		if cur.Bal["module:fee_collector"] > paid+0 && cur.Bal["module:fee_collector"] != paid {
			res.viol("feesplit/not-fully-distributed", desc+fmt.Sprintf(": fee collector holds %d after the block, this block's transactions paid %d", cur.Bal["module:fee_collector"], paid))
		}
	}

	register(&Check{ID: "C26", QuickBud: 150 * time.Second, ThorBud: 40 * time.Minute,
		Run: func(c *ev.Ctx) {
			c.Rule = "RewardForRelaysPerChain and the fee distribution of BeginBlocker on the real keepers (each evaluation on a discarded cache branch of a real chain state, parameters written to the real param store) for DAO/proposer allocation pairs x stake-weight settings x multipliers (incl. a per-chain multiplier) x relay counts x two nodes (custodial / non-custodial output) x ten delegator maps (none, 1%, 100%, 50/50, 33/33/33, 99/1, delegator = output, delegator = operator, 25 delegators): supply growth = computed reward = exact floor(multiplier x relays x weight) (float-bounded for fractional exponents); fee part = floor(reward x (dao+proposer)/100); every watched balance changes by exactly its expected share (operator: reward cost; delegators: floor(share%); output: remainder); collected fees leave the fee collector completely, DAO part within 1 of the exact proportion, proposer part split like a reward"
			n := 16
			if c.Tier == "thorough" {
				n = 160 // the thorough enumeration is ~20x larger: keep every shard a short job
			}
			var shards []map[string]string
			for i := 0; i < n; i++ {
				shards = append(shards, map[string]string{"shard": fmt.Sprint(i), "shards": fmt.Sprint(n), "tier": c.Tier})
			}
			runEvalShards(c, "rewards", defaultEnv(), nil, "c26:rewards", shards)
			// on-chain layer
			menu := []BlockSpec{
				blk(tx("gov_param", "G", "key", "pos/DAOAllocation", "value", `"0"`)), blk(tx("gov_param", "G", "key", "pos/ProposerPercentage", "value", `"0"`)),
				blk(tx("gov_param", "G", "key", "pos/DAOAllocation", "value", `"33"`)), blk(tx("gov_param", "G", "key", "pos/ProposerPercentage", "value", `"67"`)),
				blk(tx("send", "A1", "to", "A2", "amount", "5")), blk(tx("send", "A1", "to", "A2", "amount", "5"), tx("send", "A2", "to", "A1", "amount", "1"), tx("send", "A3", "to", "A1", "amount", "1")),
				{Proposer: "N2"}, {},
			}
			depth := 4
			if c.Tier == "thorough" {
				depth = 5
			}
			cfg := &chainCfg{Name: "feesplit", Env: defaultEnv(), Menu: menu, Depth: depth, Want: []string{"mon:feesplit", "supply"}, PanicSig: "block-execution-panics"}
			st := chainExplore(c, cfg)
			c.BoundDone += chainDone(c, cfg, st)
			getPool().Close()
		},
		Replay: evalOrChainReplayFn,
	})

	register(&Check{ID: "C27", QuickBud: 150 * time.Second, ThorBud: 40 * time.Minute,
		Run: func(c *ev.Ctx) {
			c.Rule = "CalculateRelayReward and BurnForChallenge of the real nodes keeper (parameters written to the real param store, every evaluation on a discarded cache branch) for every exponent 0/100..100/100 x bin size/ceiling shapes (ceiling on and off a bin boundary, 1..200 bins) x weight multipliers x relays-to-tokens multipliers x relay counts x every stake at, just below, just above and halfway between all bin boundaries from 0 to two bins beyond the ceiling and 3x the ceiling: terminates (30 s watchdog per call), never negative, never decreases when stake or relay count grows, constant for stakes at or above the ceiling"
			c.Assume("termination is checked by a watchdog bound, not proved; burn is observed as the change in total supply (capped by the stake, as simpleSlash does)")
			var shards []map[string]string
			for e := 0; e <= 100; e += 4 {
				hi := e + 3
				if hi > 100 {
					hi = 100
				}
				shards = append(shards, map[string]string{"exp_lo": fmt.Sprint(e), "exp_hi": fmt.Sprint(hi), "tier": c.Tier})
			}
			runEvalShards(c, "weights", defaultEnv(), nil, "c27:weights", shards)
			getPool().Close()
		},
		Replay: evalReplayFn,
	})
}

var _ = strings.Join
var _ = strconv.Itoa
var _ = big.NewInt
var _ = govTypes.DAOAccountName
var _ = abci.Header{}

func delegText(m map[string]uint32, nameOf func(sdk.Address) string) string {
	var ss []string
	for a, sh := range m {
		ad, _ := sdk.AddressFromHex(a)
		ss = append(ss, fmt.Sprintf("%s:%d", nameOf(ad), sh))
	}
	sort.Strings(ss)
	if len(ss) > 4 {
		ss = append(ss[:3], fmt.Sprintf("... %d delegators", len(m)))
	}
	return "[" + strings.Join(ss, " ") + "]"
}
