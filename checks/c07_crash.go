package checks

import (
	"bytes"
	"fmt"
	"strings"
	"time"

	storetypes "github.com/pokt-network/pocket-core/store/types"
	dbm "github.com/tendermint/tm-db"

	"verif/internal/ev"
	"verif/internal/recdb"
	"verif/internal/seq"
)

// c07Final: the last commit of the history is interrupted after every possible set of database writes.
func c07Final(s *msSys) (string, string) {
	if len(s.pending) != 0 || s.cms != nil || len(s.commits) == 0 {
		return "", ""
	}
	n := len(s.commits)
	// rebuild the history on a recording DB up to block n-1
	rdb := recdb.New()
	rs, sk, tk := msOpen(rdb, s.cfg, false, 0)
	if err := rs.LoadLatestVersion(); err != nil {
		return "crash/setup", err.Error()
	}
	for i := 0; i < n-1; i++ {
		id := msApplyBlock(rs, sk, tk, s.commits[i].block)
		if !bytes.Equal(id.Hash, s.commits[i].id.Hash) {
			return "crash/setup-diverged", fmt.Sprintf("rebuild of block %d gives %x, original %x", i+1, id.Hash, s.commits[i].id.Hash)
		}
	}
	before := rdb.Snapshot()
	mark := len(rdb.Log)
	id := msApplyBlock(rs, sk, tk, s.commits[n-1].block)
	if !bytes.Equal(id.Hash, s.commits[n-1].id.Hash) {
		return "crash/setup-diverged", fmt.Sprintf("rebuild of block %d gives %x, original %x", n, id.Hash, s.commits[n-1].id.Hash)
	}
	entries := rdb.Log[mark:]
	// classify: last entry = commit info batch (contains s/latest), others = per-substore version batches
	if len(entries) == 0 {
		return "crash/no-writes", "commit performed no database write"
	}
	last := entries[len(entries)-1]
	isInfo := false
	for _, o := range last.Ops {
		if string(o.K) == "s/latest" {
			isInfo = true
		}
	}
	if !isInfo {
		return "crash/log-shape", fmt.Sprintf("the last database write of a commit is not the commit-info batch (%d entries)", len(entries))
	}
	sub := entries[:len(entries)-1]
	for _, e := range sub {
		for _, o := range e.Ops {
			if strings.HasPrefix(string(o.K), "s/latest") || (strings.HasPrefix(string(o.K), "s/") && !strings.HasPrefix(string(o.K), "s/k:")) {
				return "crash/commit-info-before-substores", fmt.Sprintf("commit info key %q is written before the last substore batch", o.K)
			}
		}
	}
	// the uninterrupted continuation: one more block on top
	extra := []msWrite{{store: 0, key: s.cfg.keys[0], val: []byte("z")}, {store: s.cfg.nStores - 1, del: true, key: s.cfg.keys[len(s.cfg.keys)-1]}}
	refNext := msApplyBlock(rs, sk, tk, extra)
	var prevID storetypes.CommitID
	prevContents := make([]map[string][]byte, s.cfg.nStores)
	for i := range prevContents {
		prevContents[i] = map[string][]byte{}
	}
	if n >= 2 {
		prevID = s.commits[n-2].id
		prevContents = s.commits[n-2].contents
	}
	for mask := 0; mask <= 1<<len(sub); mask++ {
		var db *dbm.MemDB
		label := ""
		complete := mask == 1<<len(sub)
		db = copyMemDB(before)
		if complete {
			for _, e := range entries {
				e.ApplyTo(db)
			}
			label = "all writes of the commit applied"
		} else {
			var which []string
			for i, e := range sub {
				if mask&(1<<i) != 0 {
					e.ApplyTo(db)
					which = append(which, fmt.Sprint(i))
				}
			}
			label = fmt.Sprintf("crash during commit of block %d with substore batches {%s} of %d on disk, commit info not written", n, strings.Join(which, ","), len(sub))
		}
		rs2, sk2, tk2 := msOpen(db, s.cfg, false, 0)
		var err error
		if p := safely(func() { err = rs2.LoadLatestVersion() }); p != nil || err != nil {
			return "recover/open", fmt.Sprintf("%s: reopen failed: %v %v", label, err, p)
		}
		wantID, wantContents := prevID, prevContents
		if complete {
			wantID, wantContents = s.commits[n-1].id, s.commits[n-1].contents
		}
		if got := rs2.LastCommitID(); got.Version != wantID.Version || !bytes.Equal(got.Hash, wantID.Hash) {
			return "recover/commitid", fmt.Sprintf("%s: reopened node reports %d:%x, last fully committed block is %d:%x", label, got.Version, got.Hash, wantID.Version, wantID.Hash)
		}
		sigPrefix := "recover"
		first := n == 1
		if sig, what := msObserveMulti(label+": reopened node", rs2, sk2, wantContents, s.cfg.keys, s.cfg.bounds[:2], false); sig != "" {
			return c07Sig(first, sigPrefix+"/contents/"+sig), what
		}
		if !complete {
			var id2 storetypes.CommitID
			if p := safely(func() { id2 = msApplyBlock(rs2, sk2, tk2, s.commits[n-1].block) }); p != nil {
				return c07Sig(first, sigPrefix+"/reexecute-panic"), fmt.Sprintf("%s: re-executing the interrupted block panicked: %v", label, p)
			}
			if id2.Version != int64(n) || !bytes.Equal(id2.Hash, s.commits[n-1].id.Hash) {
				return c07Sig(first, sigPrefix+"/reexecute-hash"), fmt.Sprintf("%s: re-executing the interrupted block gives %d:%x, uninterrupted run %d:%x", label, id2.Version, id2.Hash, n, s.commits[n-1].id.Hash)
			}
			if sig, what := msObserveMulti(label+": after re-execution", rs2, sk2, s.commits[n-1].contents, s.cfg.keys, s.cfg.bounds[:2], false); sig != "" {
				return c07Sig(first, sigPrefix+"/reexecute-contents/"+sig), what
			}
		}
		var id3 storetypes.CommitID
		if p := safely(func() { id3 = msApplyBlock(rs2, sk2, tk2, extra) }); p != nil {
			return c07Sig(first, sigPrefix+"/next-block-panic"), fmt.Sprintf("%s: the block after recovery panicked: %v", label, p)
		}
		if id3.Version != refNext.Version || !bytes.Equal(id3.Hash, refNext.Hash) {
			return c07Sig(first, sigPrefix+"/next-block-hash"), fmt.Sprintf("%s: the block after recovery gives %d:%x, uninterrupted run %d:%x", label, id3.Version, id3.Hash, refNext.Version, refNext.Hash)
		}
	}
	return "", ""
}

// c07Sig: every manifestation of a partially written FIRST commit (version 1, no commit info on disk yet)
// is one finding; crashes during any later commit keep their detailed signature.
func c07Sig(first bool, sig string) string {
	if first {
		return "recover/first-commit-partially-written"
	}
	return sig
}

func c07Specs(tier string) []*seq.Spec {
	cfg := &msCfg{nStores: 3, keys: msKeys3[:2], vals: [][]byte{[]byte("a"), []byte("b")}, bounds: msBounds3[:3], maxCommits: 3, final: c07Final}
	depth := 5
	if tier == "thorough" {
		cfg = &msCfg{nStores: 3, nTrans: 1, keys: msKeys3[:2], vals: [][]byte{[]byte("a"), []byte("b")}, bounds: msBounds3[:3], maxCommits: 4, final: c07Final}
		depth = 7
	}
	return []*seq.Spec{msSpec("multistore-crash", cfg, depth)}
}

func init() {
	register(&Check{ID: "C07", QuickBud: 100 * time.Second, ThorBud: 30 * time.Minute,
		Run: func(c *ev.Ctx) {
			c.Level = "fault_enumeration"
			c.Rule = "BFS over all set/delete/commit histories of a real 3-substore rootmulti.Store; for every committed state the last commit is re-run on a recording DB and interrupted after every possible set of database writes: every subset of the per-substore version batches (commitStores iterates a Go map, so any order is possible) with the commit-info batch missing, plus the complete commit. Each crash state is reopened by a fresh store: height/hash/contents must equal the last fully committed block; re-executing the interrupted block must give the uninterrupted hash and contents; one further block must agree with the uninterrupted run. Non-trivial = history with a commit"
			c.Assume("a database batch is atomic (goleveldb semantics); writes are not reordered by the DB; torn single writes and lost fsyncs are not modelled")
			msRunSpecs(c, c07Specs(c.Tier))
		},
		Replay: msReplay(c07Specs),
	})
}
