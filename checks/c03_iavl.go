package checks

import (
	"bytes"
	"crypto/sha256"
	"encoding/json"
	"fmt"
	"reflect"
	"runtime"
	"sort"
	"strings"
	"sync"
	"time"

	"github.com/pokt-network/pocket-core/store/iavl"
	dbm "github.com/tendermint/tm-db"

	"verif/internal/dump"
	"verif/internal/ev"
	"verif/internal/seq"
)

type c03Op struct {
	kind     string // set remove save rollback delver
	key, val []byte
	ver      int64
}

func (o c03Op) String() string {
	switch o.kind {
	case "set":
		return fmt.Sprintf("set(%x,%q)", o.key, o.val)
	case "remove":
		return fmt.Sprintf("remove(%x)", o.key)
	case "delver":
		return fmt.Sprintf("deleteVersion(%d)", o.ver)
	}
	return o.kind
}

type c03Sys struct {
	ops      []c03Op
	keys     [][]byte // universe incl. probe keys that are never written
	bounds   [][]byte
	db       *dbm.MemDB
	tree     *iavl.MutableTree
	working  map[string][]byte
	versions map[int64]map[string][]byte
	latest   int64
	maxSaves int64
}

func newC03Sys(ops []c03Op, keys, bounds [][]byte, cacheSize int, maxSaves int64) *c03Sys {
	db := dbm.NewMemDB()
	t, err := iavl.NewMutableTree(db, cacheSize)
	if err != nil {
		panic(err)
	}
	return &c03Sys{ops: ops, keys: keys, bounds: bounds, db: db, tree: t, working: map[string][]byte{}, versions: map[int64]map[string][]byte{}, maxSaves: maxSaves}
}

func (s *c03Sys) Close() {}

func (s *c03Sys) Enabled(i int) bool {
	o := s.ops[i]
	switch o.kind {
	case "save":
		return s.latest < s.maxSaves
	case "delver":
		return o.ver <= s.latest+1
	}
	return true
}

func (s *c03Sys) Apply(i int) (sig, what string) {
	o := s.ops[i]
	p := safely(func() { sig, what = s.apply(o) })
	if p != nil {
		return o.kind + "/panic", fmt.Sprintf("%s panicked: %v", o, p)
	}
	return
}

func (s *c03Sys) apply(o c03Op) (string, string) {
	switch o.kind {
	case "set":
		_, existed := s.working[string(o.key)]
		upd := s.tree.Set(o.key, o.val)
		if upd != existed {
			return "set/updated", fmt.Sprintf("%s reported updated=%v, key existed=%v in %s", o, upd, existed, fmtMap(s.working))
		}
		s.working[string(o.key)] = o.val
	case "remove":
		want, existed := s.working[string(o.key)]
		val, rem := s.tree.Remove(o.key)
		if rem != existed || !bytes.Equal(val, want) {
			return "remove/result", fmt.Sprintf("%s returned (%s,%v), model (%s,%v)", o, hx(val), rem, hx(want), existed)
		}
		delete(s.working, string(o.key))
	case "save":
		_, v, err := s.tree.SaveVersion()
		if err != nil || v != s.latest+1 {
			return "save/version", fmt.Sprintf("SaveVersion returned version %d err=%v, expected %d", v, err, s.latest+1)
		}
		s.latest++
		s.versions[s.latest] = copyMap(s.working)
	case "rollback":
		s.tree.Rollback()
		if s.latest > 0 {
			s.working = copyMap(s.versions[s.latest])
		} else {
			s.working = map[string][]byte{}
		}
	case "delver":
		_, exists := s.versions[o.ver]
		err := s.tree.DeleteVersion(o.ver)
		wantErr := !exists || o.ver == s.latest
		if (err != nil) != wantErr {
			return "delver/error", fmt.Sprintf("%s err=%v, expected error=%v (latest %d, exists %v)", o, err, wantErr, s.latest, exists)
		}
		if err == nil {
			delete(s.versions, o.ver)
		}
	}
	return "", ""
}

func (s *c03Sys) Key() string {
	var sb strings.Builder
	sh, _ := iavl.VerifShape(s.tree.ImmutableTree)
	sb.WriteString(sh)
	for _, p := range modelRange(s.working, nil, nil, true) {
		sb.WriteString("|" + p.K + "=" + p.V)
	}
	// everything persisted (nodes, orphans, roots) decides the future of versions/pruning
	it, _ := s.db.Iterator(nil, nil)
	for ; it.Valid(); it.Next() {
		sb.Write(it.Key())
		sb.WriteString("=")
		sb.Write(it.Value())
		sb.WriteString(";")
	}
	it.Close()
	// pending orphans of the working tree (private map, read by reflection)
	sb.WriteString(dump.Dump(s.tree, dump.Opts{
		Follow: func(t reflect.Type) bool {
			return t.String() == "*iavl.MutableTree" || t.String() == "iavl.MutableTree"
		},
		SkipField: func(t reflect.Type, f string) bool { return f != "orphans" },
	}))
	h := sha256.Sum256([]byte(sb.String()))
	return string(h[:16])
}

func (s *c03Sys) Final() (sig, what string) {
	p := safely(func() { sig, what = s.final() })
	if p != nil {
		return "panic", fmt.Sprintf("observation panicked: %v", p)
	}
	return
}

func (s *c03Sys) final() (string, string) {
	if sig, what := c03ObserveTree("working", s.tree.ImmutableTree, s.working, s.keys, s.bounds); sig != "" {
		return sig, what
	}
	var avail []int
	for v := int64(0); v <= s.latest+1; v++ {
		m, ok := s.versions[v]
		if s.tree.VersionExists(v) != ok {
			return "versions/exists", fmt.Sprintf("VersionExists(%d)=%v, model %v", v, !ok, ok)
		}
		it, err := s.tree.GetImmutable(v)
		if (err == nil) != ok {
			return "versions/getimmutable", fmt.Sprintf("GetImmutable(%d) err=%v, version retained in model: %v", v, err, ok)
		}
		if !ok {
			continue
		}
		avail = append(avail, int(v))
		if sig, what := c03ObserveTree(fmt.Sprintf("version %d", v), it, m, s.keys, s.bounds); sig != "" {
			return "saved/" + sig, what
		}
		for _, k := range s.keys {
			_, val := s.tree.GetVersioned(k, v)
			want, present := m[string(k)]
			if (val == nil) != !present || !bytes.Equal(val, want) {
				return "saved/getversioned", fmt.Sprintf("GetVersioned(%x,%d)=%s, model %s", k, v, hx(val), hx(want))
			}
		}
	}
	if got := s.tree.AvailableVersions(); fmt.Sprint(got) != fmt.Sprint(avail) && !(len(got) == 0 && len(avail) == 0) {
		return "versions/available", fmt.Sprintf("AvailableVersions=%v, model %v", got, avail)
	}
	return "", ""
}

// c03ObserveTree compares every read API of one immutable tree with the map model.
func c03ObserveTree(name string, t *iavl.ImmutableTree, m map[string][]byte, keys, bounds [][]byte) (string, string) {
	sorted := modelRange(m, nil, nil, true)
	if _, err := iavl.VerifShape(t); err != nil {
		return "shape", fmt.Sprintf("%s tree holding %s: %v", name, fmtPairs(sorted), err)
	}
	if t.Size() != int64(len(sorted)) {
		return "size", fmt.Sprintf("%s tree Size()=%d, model %d", name, t.Size(), len(sorted))
	}
	for _, k := range keys {
		want, present := m[string(k)]
		idx, val := t.Get(k)
		wantIdx := int64(sort.Search(len(sorted), func(i int) bool { return sorted[i].K >= string(k) }))
		if (val == nil) != !present || !bytes.Equal(val, want) || idx != wantIdx {
			return "get", fmt.Sprintf("%s tree Get(%x)=(%d,%s), model (%d,%s) over %s", name, k, idx, hx(val), wantIdx, hx(want), fmtPairs(sorted))
		}
		if t.Has(k) != present {
			return "has", fmt.Sprintf("%s tree Has(%x)=%v, model %v over %s", name, k, !present, present, fmtPairs(sorted))
		}
	}
	for i := int64(-1); i <= int64(len(sorted)); i++ {
		k, v := t.GetByIndex(i)
		if i < 0 || i >= int64(len(sorted)) {
			if k != nil || v != nil {
				return "getbyindex", fmt.Sprintf("%s tree GetByIndex(%d)=(%x,%x) out of range over %s", name, i, k, v, fmtPairs(sorted))
			}
			continue
		}
		if string(k) != sorted[i].K || string(v) != sorted[i].V {
			return "getbyindex", fmt.Sprintf("%s tree GetByIndex(%d)=(%x,%q), model (%x,%q)", name, i, k, v, sorted[i].K, sorted[i].V)
		}
	}
	for _, st := range bounds {
		for _, en := range bounds {
			for _, asc := range []bool{true, false} {
				var got []kvPair
				t.IterateRange(st, en, asc, func(k, v []byte) bool { got = append(got, kvPair{string(k), string(v)}); return false })
				want := modelRange(m, st, en, asc)
				if !pairsEq(got, want) {
					return "iteraterange", fmt.Sprintf("%s tree IterateRange(%s,%s,asc=%v)=%s, model %s", name, hx(st), hx(en), asc, fmtPairs(got), fmtPairs(want))
				}
				got = nil
				t.IterateRangeInclusive(st, en, asc, func(k, v []byte, _ int64) bool { got = append(got, kvPair{string(k), string(v)}); return false })
				var wantInc []kvPair
				for _, p := range modelRange(m, st, nil, asc) {
					if en == nil || p.K <= string(en) {
						wantInc = append(wantInc, p)
					}
				}
				if !pairsEq(got, wantInc) {
					return "iteraterangeinclusive", fmt.Sprintf("%s tree IterateRangeInclusive(%s,%s,asc=%v)=%s, model %s", name, hx(st), hx(en), asc, fmtPairs(got), fmtPairs(wantInc))
				}
			}
		}
	}
	var got []kvPair
	t.Iterate(func(k, v []byte) bool { got = append(got, kvPair{string(k), string(v)}); return false })
	if !pairsEq(got, sorted) {
		return "iterate", fmt.Sprintf("%s tree Iterate()=%s, model %s", name, fmtPairs(got), fmtPairs(sorted))
	}
	return "", ""
}

func c03Spec(name, tier string, variant int) *seq.Spec {
	b := func(x ...byte) []byte { return x }
	var wkeys, probes, vals [][]byte
	var vers []int64
	depth, cache := 5, 0
	maxSaves := int64(3)
	rollback := false
	switch variant {
	case 0: // shape: many keys, one save allowed (persisted nodes), deep
		wkeys = [][]byte{b(0x10), b(0x20), b(0x30), b(0x40), b(0x50), b(0x60)}
		probes = [][]byte{b(0x05), b(0x25), b(0x70)}
		vals = [][]byte{[]byte("a")}
		maxSaves, depth = 1, 7
		if tier == "thorough" {
			depth, maxSaves = 8, 2
		}
	case 1: // versions: few keys, saves, rollback, pruning
		wkeys = [][]byte{b(0x10), b(0x20), b(0x30)}
		probes = [][]byte{b(0x15)}
		vals = [][]byte{[]byte("a"), []byte("b")}
		vers = []int64{1, 2, 3}
		rollback = true
		depth, cache = 7, 100
		if tier == "thorough" {
			depth = 8
			vers = []int64{1, 2, 3, 4}
			maxSaves = 4
		}
	case 2, 3: // fixpoint over all reachable (key set, shape) states: every rotation case of insert and delete
		n := 11
		if variant == 3 {
			n = 5
		}
		if tier == "thorough" {
			n++
			if variant == 2 {
				n++
			}
		}
		for i := 0; i < n; i++ {
			wkeys = append(wkeys, b(byte(0x10*(i+1))))
		}
		probes = [][]byte{b(0x05), b(0x35), b(0xf5)}
		vals = [][]byte{[]byte("a")}
		depth = 64 // until no new state appears
		maxSaves = 0
		if variant == 3 {
			maxSaves = 1
		}
	}
	var ops []c03Op
	for _, k := range wkeys {
		for _, v := range vals {
			ops = append(ops, c03Op{kind: "set", key: k, val: v})
		}
		ops = append(ops, c03Op{kind: "remove", key: k})
	}
	if maxSaves > 0 {
		ops = append(ops, c03Op{kind: "save"})
	}
	if rollback {
		ops = append(ops, c03Op{kind: "rollback"})
	}
	for _, v := range vers {
		ops = append(ops, c03Op{kind: "delver", ver: v})
	}
	keys := append(append([][]byte{}, wkeys...), probes...)
	bounds := append([][]byte{nil}, keys...)
	if variant >= 2 {
		bounds = [][]byte{nil, wkeys[1], wkeys[len(wkeys)/2], probes[1], wkeys[len(wkeys)-1]}
	}
	return &seq.Spec{Name: name, NumOps: len(ops), Depth: depth,
		OpName: func(i int) string { return ops[i].String() },
		OpKind: func(i int) string { return ops[i].kind },
		New:    func() seq.Sys { return newC03Sys(ops, keys, bounds, cache, maxSaves) },
		Trivial: func(h []uint16) bool {
			n := 0
			for _, o := range h {
				if ops[o].kind == "set" {
					n++
				}
			}
			return n < 2
		},
	}
}

// c03Perms: every insertion order x every removal order of n keys, with/without a save in between,
// full observation after every operation.
func c03Perms(c *ev.Ctx, n int) {
	keys := make([][]byte, n)
	for i := range keys {
		keys[i] = []byte{byte(0x10 * (i + 1))}
	}
	probes := append(append([][]byte{}, keys...), []byte{0x05}, []byte{0x35}, []byte{0xf0})
	bounds := [][]byte{nil, keys[0], keys[n/2], []byte{0x35}}
	var perms [][]int
	var gen func(p []int, used int)
	gen = func(p []int, used int) {
		if len(p) == n {
			perms = append(perms, append([]int{}, p...))
			return
		}
		for i := 0; i < n; i++ {
			if used&(1<<i) == 0 {
				gen(append(p, i), used|1<<i)
			}
		}
	}
	gen(nil, 0)
	type job struct{ ins, rem []int }
	jobs := make(chan job, 256)
	var wg sync.WaitGroup
	var mu sync.Mutex
	var execs, steps int64
	shapes := map[string]struct{}{}
	for w := 0; w < runtime.GOMAXPROCS(0); w++ {
		wg.Add(1)
		go func() {
			defer wg.Done()
			var le, ls int64
			lshapes := map[string]struct{}{}
			for j := range jobs {
				if c.Expired() {
					continue
				}
				for _, saveMid := range []bool{false, true} {
					le++
					hist := []string{}
					p := safely(func() {
						db := dbm.NewMemDB()
						t, _ := iavl.NewMutableTree(db, 0)
						m := map[string][]byte{}
						obs := func() bool {
							ls++
							sh, _ := iavl.VerifShape(t.ImmutableTree)
							lshapes[stripVersions(sh)] = struct{}{}
							if sig, what := c03ObserveTree("working", t.ImmutableTree, m, probes, bounds); sig != "" {
								c.Report("iavl-perms/"+sig, what+" after "+strings.Join(hist, ","), map[string]interface{}{"insert": j.ins, "remove": j.rem, "save_mid": saveMid, "n": n})
								return false
							}
							return true
						}
						for _, i := range j.ins {
							hist = append(hist, fmt.Sprintf("set(%x)", keys[i]))
							t.Set(keys[i], []byte("v"))
							m[string(keys[i])] = []byte("v")
							if !obs() {
								return
							}
						}
						if saveMid {
							hist = append(hist, "save")
							if _, _, err := t.SaveVersion(); err != nil {
								c.Report("iavl-perms/save", err.Error(), nil)
								return
							}
						}
						for _, i := range j.rem {
							hist = append(hist, fmt.Sprintf("remove(%x)", keys[i]))
							_, ok := t.Remove(keys[i])
							delete(m, string(keys[i]))
							if !ok {
								c.Report("iavl-perms/remove", "Remove of a present key reported not removed after "+strings.Join(hist, ","), map[string]interface{}{"insert": j.ins, "remove": j.rem, "save_mid": saveMid, "n": n})
								return
							}
							if !obs() {
								return
							}
						}
					})
					if p != nil {
						c.Report("iavl-perms/panic", fmt.Sprintf("panic %v after %s", p, strings.Join(hist, ",")), map[string]interface{}{"insert": j.ins, "remove": j.rem, "save_mid": saveMid, "n": n})
					}
				}
			}
			mu.Lock()
			execs += le
			steps += ls
			for k := range lshapes {
				shapes[k] = struct{}{}
			}
			mu.Unlock()
		}()
	}
	for _, a := range perms {
		for _, b := range perms {
			jobs <- job{a, b}
		}
	}
	close(jobs)
	wg.Wait()
	for k := range shapes {
		c.Distinct("shape|" + k)
	}
	c.AddStates(int64(len(shapes)))
	c.AddTransitions(steps)
	c.AddTraces(execs)
	c.Outcome(fmt.Sprintf("perms-n%d-executions", n))
	c.OutcomeN(fmt.Sprintf("perms-n%d-distinct-shapes", n), int64(len(shapes)))
	c.Sample(map[string]interface{}{"perm_sweep": "insert order x remove order", "n": n, "example": map[string]interface{}{"insert": perms[len(perms)/3], "remove": perms[len(perms)/2]}})
}

func stripVersions(s string) string {
	var sb strings.Builder
	skip := false
	for _, r := range s {
		if r == '@' {
			skip = true
			continue
		}
		if skip && (r == ' ' || r == ')' || r == '>' || r == '(') {
			skip = false
		}
		if !skip {
			sb.WriteRune(r)
		}
	}
	return sb.String()
}

func init() {
	register(&Check{ID: "C03", QuickBud: 110 * time.Second, ThorBud: 30 * time.Minute,
		Run: func(c *ev.Ctx) {
			c.Rule = "(1) BFS over all sequences of set/remove/SaveVersion/Rollback/DeleteVersion on a real iavl.MutableTree over MemDB, state merged on (working-tree shape with node versions, persisted DB bytes, pending orphans); after every new state every read API (Get+index, Has, GetByIndex, IterateRange/Inclusive both directions over all bounds, Iterate, Size, GetVersioned, VersionExists) of the working tree and of every retained version is compared with per-version maps and the AVL/size/inner-key invariants are checked; (2) every insertion order x every removal order of n keys with and without a save in between. Non-trivial = history with >= 2 sets / distinct tree shape"
			done := ""
			n := 5
			if c.Tier == "thorough" {
				n = 6
			}
			c03Perms(c, n)
			done += fmt.Sprintf("perm sweep n=%d complete=%v; ", n, !c.Expired())
			for v := 0; v < 4; v++ {
				sp := c03Spec(fmt.Sprintf("iavl-v%d", v), c.Tier, v)
				r := seq.Run(c, sp)
				done += fmt.Sprintf("%s: depth %d/%d complete=%v states=%d transitions=%d ops=%d; ", sp.Name, r.DepthDone, sp.Depth, r.Complete, r.States, r.Transitions, sp.NumOps)
				if !r.Complete {
					c.Cap(fmt.Sprintf("%s stopped at depth %d of %d", sp.Name, r.DepthDone, sp.Depth))
				}
			}
			c.BoundDone = done
		},
		Replay: func(raw json.RawMessage) (string, error) {
			var r seq.Replay
			if err := json.Unmarshal(raw, &r); err != nil || r.Spec == "" {
				return "", fmt.Errorf("permutation-sweep replays are re-run by the check itself (case: %s)", string(raw))
			}
			for _, tier := range []string{"quick", "thorough"} {
				for v := 0; v < 4; v++ {
					sp := c03Spec(fmt.Sprintf("iavl-v%d", v), tier, v)
					if sp.Name == r.Spec && replayNamesMatch(sp, r) {
						return seq.ReplayOps(sp, r.Idx)
					}
				}
			}
			return "", fmt.Errorf("no spec matches replay %q", r.Spec)
		},
	})
}
