package checks

import (
	"encoding/hex"
	"encoding/json"
	"fmt"
	"net/http"
	"net/http/httptest"
	"os"
	"sort"
	"strconv"
	"strings"
	"sync"

	pcrypto "github.com/pokt-network/pocket-core/crypto"
	sdk "github.com/pokt-network/pocket-core/types"
	pc "github.com/pokt-network/pocket-core/x/pocketcore/types"
)

// ---- local servicer node, stub external chain, relay / evidence / claim / proof builders

var (
	stubChainOnce sync.Once
	stubChainURL  string
	metricsOnce   sync.Once
)

// stubChain: the "external blockchain" relays are executed against (answers every request with the same JSON).
func stubChain() string {
	stubChainOnce.Do(func() {
		srv := httptest.NewServer(http.HandlerFunc(func(w http.ResponseWriter, r *http.Request) {
			w.Header().Set("Content-Type", "application/json")
			_, _ = w.Write([]byte(`{"jsonrpc":"2.0","id":1,"result":"0x1"}`))
		}))
		stubChainURL = srv.URL
	})
	return stubChainURL
}

// setupLocalNode gives the process the servicer identity a real node gets from its key file: an entry in
// GlobalPocketNodes with evidence and session stores (in memory), which also become the global caches that
// ValidateClaim / HandleDispatch consult.
func (r *replica) setupLocalNode() {
	local := r.env.LocalNode
	if local == "" {
		local = "N1"
	}
	pc.CleanPocketNodes()
	pc.GlobalPocketNodes = map[string]*pc.PocketNode{}
	pc.GlobalSessionCache, pc.GlobalEvidenceCache = nil, nil
	node := pc.AddPocketNode(ckey(local), bufLogger{r.logbuf})
	cfg := sdk.DefaultTestingPocketConfig()
	node.EvidenceStore = &pc.CacheStorage{}
	node.SessionStore = &pc.CacheStorage{}
	node.EvidenceStore.Init("", "", cfg.TendermintConfig.LevelDBOptions, 100, true)
	node.EvidenceStore.SealMap = &sync.Map{} // Init leaves it nil for in-memory stores
	node.SessionStore.Init("", "", cfg.TendermintConfig.LevelDBOptions, 100, true)
	pc.GlobalSessionCache = node.SessionStore
	pc.GlobalEvidenceCache = node.EvidenceStore
	metricsOnce.Do(func() {
		pc.InitGlobalServiceMetric(r.hosted, bufLogger{r.logbuf}, "0", 3)
	})
}

func rawPub(name string) string { return ckey(name).PublicKey().RawString() }

type relaySpec struct {
	App, Client, Servicer string
	Chain                 string
	Session               int64
	Entropy               int64
	Data                  string
	MetaHeight            int64
	Mutate                string
}

func signHex(k pcrypto.PrivateKey, msg []byte) string {
	s, err := k.Sign(msg)
	if err != nil {
		panic(err)
	}
	return hex.EncodeToString(s)
}

func mkAAT(app, client, mutate string) pc.AAT {
	a := pc.AAT{Version: "0.0.1", ApplicationPublicKey: rawPub(app), ClientPublicKey: rawPub(client)}
	signer := app
	switch mutate {
	case "aat-signed-by-stranger":
		signer = "X"
	case "aat-version":
		a.Version = "0.0.2"
	case "aat-no-version":
		a.Version = ""
	case "aat-app-key-uppercase": // the staked application's key spelled with upper-case hex digits, token signed by the application for that spelling
		a.ApplicationPublicKey = strings.ToUpper(a.ApplicationPublicKey)
	}
	a.ApplicationSignature = signHex(ckey(signer), a.Hash())
	switch mutate {
	case "aat-sig-flip":
		b, _ := hex.DecodeString(a.ApplicationSignature)
		b[5] ^= 1
		a.ApplicationSignature = hex.EncodeToString(b)
	case "aat-sig-empty":
		a.ApplicationSignature = ""
	case "aat-client-swapped": // token was issued for another client key
		a.ClientPublicKey = rawPub("X")
	case "aat-app-swapped": // signature by the real app, but the token names another (staked) application
		a.ApplicationPublicKey = rawPub("P2")
	}
	return a
}

func mkRelay(s relaySpec) pc.Relay {
	if s.Client == "" {
		s.Client = "C1"
	}
	if s.Data == "" {
		s.Data = `{"jsonrpc":"2.0","method":"eth_blockNumber","params":[],"id":1}`
	}
	rl := pc.Relay{
		Payload: pc.Payload{Data: s.Data, Method: "POST", Path: "", Headers: nil},
		Meta:    pc.RelayMeta{BlockHeight: s.MetaHeight},
	}
	p := pc.RelayProof{
		Entropy:            s.Entropy,
		SessionBlockHeight: s.Session,
		ServicerPubKey:     rawPub(s.Servicer),
		Blockchain:         s.Chain,
		Token:              mkAAT(s.App, s.Client, s.Mutate),
		RequestHash:        rl.RequestHashString(),
	}
	signer := s.Client
	switch s.Mutate {
	case "proof-signed-by-stranger":
		signer = "X"
	case "proof-signed-by-app":
		signer = s.App
	case "request-hash-other-payload":
		other := rl
		other.Payload.Data = s.Data + " "
		p.RequestHash = other.RequestHashString()
	case "request-hash-garbage":
		p.RequestHash = strings.Repeat("ab", 32)
	case "negative-entropy":
		p.Entropy = -1
	}
	p.Signature = signHex(ckey(signer), p.Hash())
	switch s.Mutate {
	case "proof-sig-flip":
		b, _ := hex.DecodeString(p.Signature)
		b[7] ^= 1
		p.Signature = hex.EncodeToString(b)
	case "proof-sig-empty":
		p.Signature = ""
	case "payload-changed-after-signing":
		rl.Payload.Data = s.Data + " "
	case "servicer-changed-after-signing":
		p.ServicerPubKey = rawPub("N2")
	case "chain-changed-after-signing":
		p.Blockchain = "0002"
	case "session-changed-after-signing":
		p.SessionBlockHeight = s.Session - 2
	case "entropy-changed-after-signing":
		p.Entropy = s.Entropy + 1
	}
	rl.Proof = p
	return rl
}

// synthEvidence: n distinct valid relay proofs for (app, chain, session) served by servicer.
func synthEvidence(app, servicer, chain string, session int64, n int) []pc.Proof {
	var ps []pc.Proof
	for i := 0; i < n; i++ {
		rl := mkRelay(relaySpec{App: app, Servicer: servicer, Chain: chain, Session: session, Entropy: int64(i + 1), MetaHeight: session})
		ps = append(ps, rl.Proof)
	}
	return ps
}

// sessionHeightFor: "cur" = session containing the block being built, "cur-1" the one before, etc; or absolute.
func (r *replica) sessionHeightFor(arg string, height int64) int64 {
	bps := int64(r.env.BlocksPerSession)
	cur := ((height-1)/bps)*bps + 1
	if arg == "" {
		arg = "cur-1"
	}
	if strings.HasPrefix(arg, "cur") {
		d, _ := strconv.ParseInt(strings.TrimPrefix(arg, "cur"), 10, 64)
		return cur + d*bps
	}
	v, _ := strconv.ParseInt(arg, 10, 64)
	return v
}

var curReplica *replica
var curBuildHeight int64

func init() {
	buildRelayMsg = func(t TxSpec) (sdk.ProtoMsg, error) {
		r := curReplica
		if r == nil {
			return nil, fmt.Errorf("claim/proof transactions need a replica")
		}
		a := t.Args
		node := a["node"]
		if node == "" {
			node = t.Signer
		}
		app := a["app"]
		if app == "" {
			app = "P1"
		}
		chain := a["chain"]
		if chain == "" {
			chain = "0001"
		}
		n := 6
		if a["relays"] != "" {
			n, _ = strconv.Atoi(a["relays"])
		}
		session := r.sessionHeightFor(a["session"], curBuildHeight)
		if a["shift"] != "" {
			d, _ := strconv.ParseInt(a["shift"], 10, 64)
			session += d
		}
		proofs := synthEvidence(app, node, chain, session, n)
		switch a["dup"] { // evidence with duplicated relays (a servicer replaying one relay to inflate its count)
		case "all":
			for i := range proofs {
				proofs[i] = proofs[0]
			}
		case "pairs":
			for i := range proofs {
				proofs[i] = proofs[i/2*2]
			}
		}
		hdr := pc.SessionHeader{ApplicationPubKey: rawPub(app), Chain: chain, SessionBlockHeight: session}
		root, sorted := pc.GenerateRoot(session, proofs)
		switch t.Kind {
		case "claim":
			total := int64(n)
			if a["total"] != "" {
				total, _ = strconv.ParseInt(a["total"], 10, 64)
			}
			m := &pc.MsgClaim{SessionHeader: hdr, MerkleRoot: root, TotalProofs: total, FromAddress: caddr(node), EvidenceType: pc.RelayEvidence}
			if a["expiration"] != "" {
				m.ExpirationHeight, _ = strconv.ParseInt(a["expiration"], 10, 64)
			}
			return m, nil
		case "proof":
			// required index from the chain as the real node computes it
			idx, err := r.requiredProofIndex(hdr, int64(n))
			if err != nil {
				idx = 0 // entropy block not there yet: any index (the tx must be rejected)
			}
			switch a["variant"] {
			case "wrong-index":
				idx = (idx + 1) % int64(n)
			}
			if a["index"] != "" { // explicit leaf index (probing which index the chain accepts, if any)
				idx, _ = strconv.ParseInt(a["index"], 10, 64)
			}
			mp, leaf := pc.GenerateProofs(session, sorted, int(idx))
			if os.Getenv("VERIF_DEBUG") != "" {
				fmt.Fprintf(os.Stderr, "DEBUG proof build: session=%d n=%d idx=%d err=%v levels=%d target=%d buildHeight=%d rheight=%d\n", session, n, idx, err, len(mp.HashRanges), mp.TargetIndex, curBuildHeight, r.height)
			}
			switch a["variant"] {
			case "wrong-leaf": // a valid relay proof that is not the one at the index
				leaf = sorted[(int(idx)+2)%n]
			case "foreign-leaf": // a relay proof for the same session that was never part of the claimed tree
				leaf = mkRelay(relaySpec{App: app, Servicer: node, Chain: chain, Session: session, Entropy: 99999, MetaHeight: session}).Proof
			case "other-servicer-leaf":
				leaf = mkRelay(relaySpec{App: app, Servicer: "N2", Chain: chain, Session: session, Entropy: 1, MetaHeight: session}).Proof
			case "target-index-only": // right leaf and path, index field claims another position
				mp.TargetIndex = (mp.TargetIndex + 1) % int64(n)
			}
			return &pc.MsgProof{MerkleProof: mp, Leaf: leaf, EvidenceType: pc.RelayEvidence}, nil
		}
		return nil, fmt.Errorf("unknown relay tx kind %s", t.Kind)
	}

	chainProbes["dispatch"] = func(r *replica, p Probe) string {
		_, _, _, _, pk := r.app.VerifKeepers()
		app := p.Args["app"]
		if app == "" {
			app = "P1"
		}
		chain := p.Args["chain"]
		if chain == "" {
			chain = "0001"
		}
		res, err := pk.HandleDispatch(r.ctxNow(), pc.SessionHeader{ApplicationPubKey: rawPub(app), Chain: chain})
		if err != nil {
			return fmt.Sprintf("dispatch err=%d", err.Code())
		}
		var ns []string
		for _, n := range res.Session.SessionNodes {
			ns = append(ns, roleOf(n.GetAddress()))
		}
		sort.Strings(ns)
		return fmt.Sprintf("dispatch session=%d nodes=%v", res.Session.SessionHeader.SessionBlockHeight, ns)
	}
	chainProbes["relay"] = func(r *replica, p Probe) string {
		_, _, _, _, pk := r.app.VerifKeepers()
		rl := r.relayFromArgs(p.Args)
		resp, err := pk.HandleRelay(r.ctxNow(), rl)
		if err != nil {
			return fmt.Sprintf("relay err=%s/%d", err.Codespace(), err.Code())
		}
		return fmt.Sprintf("relay ok sig=%v", resp.Signature != "")
	}
}

func (r *replica) relayFromArgs(a map[string]string) pc.Relay {
	app := a["app"]
	if app == "" {
		app = "P1"
	}
	chain := a["chain"]
	if chain == "" {
		chain = "0001"
	}
	serv := a["servicer"]
	if serv == "" {
		serv = "N1"
	}
	ent := int64(1)
	if a["entropy"] != "" {
		ent, _ = strconv.ParseInt(a["entropy"], 10, 64)
	}
	sess := r.sessionHeightFor(orDefault(a["session"], "cur"), r.height)
	meta := r.height
	if a["meta"] != "" {
		d, _ := strconv.ParseInt(a["meta"], 10, 64)
		meta = r.height + d
	}
	return mkRelay(relaySpec{App: app, Client: a["client"], Servicer: serv, Chain: chain, Session: sess, Entropy: ent, Data: a["data"], MetaHeight: meta, Mutate: a["mutate"]})
}

func orDefault(s, d string) string {
	if s == "" {
		return d
	}
	return s
}

// requiredProofIndex mirrors getPseudorandomIndex (unexported) through exported pieces.
func (r *replica) requiredProofIndex(hdr pc.SessionHeader, total int64) (int64, error) {
	_, _, _, _, pk := r.app.VerifKeepers()
	ctx := r.ctxNow()
	sctx, err := ctx.PrevCtx(hdr.SessionBlockHeight)
	if err != nil {
		return 0, err
	}
	proofHeight := hdr.SessionBlockHeight + pk.ClaimSubmissionWindow(sctx)*pk.BlocksPerSession(sctx)
	var bh []byte
	if curBuildHeight == proofHeight && r.height == proofHeight-1 {
		// the transaction is built for the block whose own header carries the hash (its LastBlockID)
		bh = r.lastID.Hash
	} else if bh, err = ctx.GetPrevBlockHash(proofHeight); err != nil {
		return 0, err
	}
	gen := struct {
		BlockHash string
		Header    string
	}{hex.EncodeToString(bh), hdr.HashString()}
	bz, _ := json.Marshal(gen)
	return pc.PseudorandomSelection(sdk.NewInt(total), pc.Hash(bz)).Int64(), nil
}
