package checks

import (
	"bytes"
	"encoding/json"
	"fmt"
	"math"
	"math/big"
	"reflect"
	"sort"
	"strings"
	"time"

	"github.com/pokt-network/pocket-core/codec"
	pcrypto "github.com/pokt-network/pocket-core/crypto"
	sdk "github.com/pokt-network/pocket-core/types"
	appsTypes "github.com/pokt-network/pocket-core/x/apps/types"
	authTypes "github.com/pokt-network/pocket-core/x/auth/types"
	govTypes "github.com/pokt-network/pocket-core/x/gov/types"
	nodesTypes "github.com/pokt-network/pocket-core/x/nodes/types"
	pcTypes "github.com/pokt-network/pocket-core/x/pocketcore/types"
	"github.com/willf/bloom"

	"verif/internal/ev"
)

// ---------------------------------------------------------------- value generator
// Every leaf of a type has a typical value (alternative 0) and a list of alternatives; c38Build constructs
// the value selected by sel (leaf path -> alternative index). Discovery (sel == nil, rec != nil) records leaves.

var (
	tAddress   = reflect.TypeOf(sdk.Address{})
	tBigInt    = reflect.TypeOf(sdk.BigInt{})
	tBigDec    = reflect.TypeOf(sdk.BigDec{})
	tPubKey    = reflect.TypeOf((*pcrypto.PublicKey)(nil)).Elem()
	tProof     = reflect.TypeOf((*pcTypes.Proof)(nil)).Elem()
	tMsg       = reflect.TypeOf((*sdk.Msg)(nil)).Elem()
	tTime      = reflect.TypeOf(time.Time{})
	tCoins     = reflect.TypeOf(sdk.Coins{})
	tBytes     = reflect.TypeOf([]byte{})
	tBloom     = reflect.TypeOf(bloom.BloomFilter{})
	tDuration  = reflect.TypeOf(time.Duration(0))
	tStdSig    = reflect.TypeOf(authTypes.StdSignature{})
	tIfaceType = reflect.TypeOf((*interface{})(nil)).Elem()
)

func c38Multisig() pcrypto.PublicKey {
	return pcrypto.PublicKeyMultiSignature{PublicKeys: []pcrypto.PublicKey{edKey(31).PublicKey(), secpKey(32).PublicKey()}}
}

type c38Gen struct {
	sel   map[string]int
	rec   map[string]int // path -> number of alternatives
	order []string
	// per-path restrictions: paths (suffix match) whose PublicKey must stay ed25519 / no multisig
	msgAlts []sdk.Msg
}

func (g *c38Gen) pick(path string, n int) int {
	if g.rec != nil {
		if _, ok := g.rec[path]; !ok {
			g.rec[path] = n
			g.order = append(g.order, path)
		}
	}
	if i, ok := g.sel[path]; ok && i < n {
		return i
	}
	return 0
}

func bigFrom(s string) sdk.BigInt {
	b, _ := new(big.Int).SetString(s, 10)
	return sdk.NewIntFromBigInt(b)
}

func (g *c38Gen) build(t reflect.Type, path string) reflect.Value {
	switch t {
	case tAddress:
		alts := []sdk.Address{sdk.Address(bytes.Repeat([]byte{0xA1}, 20)), sdk.Address(bytes.Repeat([]byte{0x00}, 20)), sdk.Address(bytes.Repeat([]byte{0xFF}, 20)), nil}
		return reflect.ValueOf(alts[g.pick(path, len(alts))])
	case tBigInt:
		max255 := new(big.Int).Sub(new(big.Int).Lsh(big.NewInt(1), 255), big.NewInt(1)) // the documented maximum 2^255-1
		alts := []sdk.BigInt{sdk.NewInt(1000000), sdk.ZeroInt(), sdk.OneInt(), sdk.NewInt(math.MaxInt64), bigFrom("1000000000000000000000000000000"),
			sdk.NewIntFromBigInt(max255), sdk.NewIntFromBigInt(new(big.Int).Neg(max255)), sdk.NewInt(-1)}
		return reflect.ValueOf(alts[g.pick(path, len(alts))])
	case tBigDec:
		alts := []sdk.BigDec{sdk.NewDec(1), sdk.ZeroDec(), sdk.NewDecWithPrec(1, 18), sdk.NewDecWithPrec(123456789, 4), sdk.NewDec(math.MaxInt64)}
		return reflect.ValueOf(alts[g.pick(path, len(alts))])
	case tTime:
		alts := []time.Time{time.Unix(1600000000, 0).UTC(), {}, time.Unix(1600000000, 123456789).UTC(), time.Unix(0, 0).UTC()}
		return reflect.ValueOf(alts[g.pick(path, len(alts))])
	case tDuration:
		alts := []time.Duration{time.Hour, 0, 1, math.MaxInt64}
		return reflect.ValueOf(alts[g.pick(path, len(alts))])
	case tCoins:
		alts := []sdk.Coins{sdk.NewCoins(sdk.NewCoin("upokt", sdk.NewInt(10000))), nil, {}, sdk.NewCoins(sdk.NewCoin("aaa", sdk.NewInt(1)), sdk.NewCoin("upokt", bigFrom("99999999999999999999999")))}
		return reflect.ValueOf(alts[g.pick(path, len(alts))])
	case tBytes:
		alts := [][]byte{{1, 2, 3}, nil, {}, bytes.Repeat([]byte{0xFF}, 64), {0}}
		return reflect.ValueOf(alts[g.pick(path, len(alts))])
	case tPubKey:
		alts := []pcrypto.PublicKey{edKey(30).PublicKey(), secpKey(30).PublicKey(), edKey(33).PublicKey()}
		if strings.HasSuffix(path, ".PubKey") || strings.HasSuffix(path, "Signature.PublicKey") {
			alts = append(alts, c38Multisig())
			if strings.HasSuffix(path, ".PubKey") && strings.Contains(path, "Account") {
				alts = append(alts, nil) // an account that has not signed yet has no key
			}
		}
		i := g.pick(path, len(alts))
		v := reflect.New(tPubKey).Elem()
		if alts[i] != nil {
			v.Set(reflect.ValueOf(alts[i]))
		}
		return v
	case tProof:
		i := g.pick(path, 2)
		v := reflect.New(tProof).Elem()
		if i == 0 {
			p := g.build(reflect.TypeOf(pcTypes.RelayProof{}), path+"{relay}").Interface().(pcTypes.RelayProof)
			v.Set(reflect.ValueOf(p))
		} else {
			p := g.build(reflect.TypeOf(pcTypes.ChallengeProofInvalidData{}), path+"{challenge}").Interface().(pcTypes.ChallengeProofInvalidData)
			v.Set(reflect.ValueOf(p))
		}
		return v
	case tMsg:
		i := g.pick(path, len(g.msgAlts))
		v := reflect.New(tMsg).Elem()
		v.Set(reflect.ValueOf(g.msgAlts[i]))
		return v
	case tBloom:
		i := g.pick(path, 3)
		b := bloom.New(64, 3)
		for k := 0; k < i*3; k++ {
			b.Add([]byte{byte(k)})
		}
		return reflect.ValueOf(*b)
	}
	switch t.Kind() {
	case reflect.String:
		alts := []string{"typical", "", "ü✓ \"quoted\" \\ /", strings.Repeat("x", 300), "0001", "  padded\tby whitespace \n", " "}
		if strings.HasSuffix(path, "ModuleAccount.Name") {
			// a module account always has a name (an unnamed one without permissions is byte-identical to the
			// encoding of its embedded base account and is not a state the keeper creates)
			alts = []string{"typical", "dao", "application_stake_tokens_pool", strings.Repeat("x", 300)}
		}
		return reflect.ValueOf(alts[g.pick(path, len(alts))]).Convert(t)
	case reflect.Bool:
		return reflect.ValueOf(g.pick(path, 2) == 0).Convert(t) // typical true
	case reflect.Int64, reflect.Int:
		alts := []int64{7, 0, 1, -1, math.MaxInt64, math.MinInt64}
		return reflect.ValueOf(alts[g.pick(path, len(alts))]).Convert(t)
	case reflect.Int32:
		alts := []int64{2, 0, 1, math.MaxInt32}
		return reflect.ValueOf(alts[g.pick(path, len(alts))]).Convert(t)
	case reflect.Uint8:
		alts := []uint64{1, 0, 2, 255}
		return reflect.ValueOf(alts[g.pick(path, len(alts))]).Convert(t)
	case reflect.Uint32, reflect.Uint64:
		alts := []uint64{10, 1, 100, math.MaxUint32}
		return reflect.ValueOf(alts[g.pick(path, len(alts))]).Convert(t)
	case reflect.Float64:
		alts := []float64{0.5, 0, 1}
		return reflect.ValueOf(alts[g.pick(path, len(alts))]).Convert(t)
	case reflect.Ptr:
		v := reflect.New(t.Elem())
		v.Elem().Set(g.build(t.Elem(), path))
		return v
	case reflect.Struct:
		v := reflect.New(t).Elem()
		for i := 0; i < t.NumField(); i++ {
			f := t.Field(i)
			if f.PkgPath != "" || strings.HasPrefix(f.Name, "XXX_") {
				continue
			}
			v.Field(i).Set(g.build(f.Type, path+"."+f.Name))
		}
		return v
	case reflect.Slice:
		// 0: one element, 1: nil, 2: empty, 3: two elements (the second built with its own leaves)
		i := g.pick(path+"[]", 4)
		switch i {
		case 1:
			return reflect.Zero(t)
		case 2:
			return reflect.MakeSlice(t, 0, 0)
		case 3:
			s := reflect.MakeSlice(t, 2, 2)
			s.Index(0).Set(g.build(t.Elem(), path+"[0]"))
			s.Index(1).Set(g.build(t.Elem(), path+"[1]"))
			return s
		}
		s := reflect.MakeSlice(t, 1, 1)
		s.Index(0).Set(g.build(t.Elem(), path+"[0]"))
		return s
	case reflect.Map:
		// 0: one entry, 1: nil, 2: empty, 3: three entries
		i := g.pick(path+"{}", 4)
		if i == 1 {
			return reflect.Zero(t)
		}
		m := reflect.MakeMap(t)
		n := map[int]int{0: 1, 2: 0, 3: 3}[i]
		for k := 0; k < n; k++ {
			var key reflect.Value
			if t.Key().Kind() == reflect.String {
				ks := []string{strings.Repeat("a1", 20), strings.Repeat("00", 20), strings.Repeat("ff", 20)}
				if strings.Contains(path, "Multiplier") {
					ks = []string{"0001", "0021", "03DF"}
				}
				key = reflect.ValueOf(ks[k]).Convert(t.Key())
			} else {
				key = reflect.ValueOf(k).Convert(t.Key())
			}
			m.SetMapIndex(key, g.build(t.Elem(), fmt.Sprintf("%s{%d}", path, k)))
		}
		return m
	case reflect.Interface:
		return reflect.Zero(t)
	}
	panic(fmt.Sprintf("c38: no generator for %s at %s", t, path))
}

// canon: canonical text of a value; nil and empty slices/maps/byte strings are the same, numbers by value,
// keys by type + raw bytes, times by instant.
func c38Canon(v reflect.Value) string {
	if !v.IsValid() {
		return "<nil>"
	}
	if v.CanInterface() {
		switch x := v.Interface().(type) {
		case sdk.BigInt:
			if x.BigInt() == nil {
				return "int:nil"
			}
			return "int:" + x.String()
		case sdk.BigDec:
			return "dec:" + x.String()
		case time.Time:
			return fmt.Sprintf("time:%d", x.UnixNano())
		case pcrypto.PublicKey:
			if x == nil {
				return "key:nil"
			}
			return fmt.Sprintf("key:%T:%x", x, x.RawBytes())
		case bloom.BloomFilter:
			b, _ := x.GobEncode()
			return fmt.Sprintf("bloom:%x", b)
		case sdk.Coins:
			var ss []string
			for _, c := range x {
				ss = append(ss, c.Denom+"="+c.Amount.String())
			}
			return "coins[" + strings.Join(ss, ",") + "]"
		}
	}
	switch v.Kind() {
	case reflect.Ptr, reflect.Interface:
		if v.IsNil() {
			return "<nil>"
		}
		if v.Kind() == reflect.Interface {
			e := v.Elem()
			for e.Kind() == reflect.Ptr && !e.IsNil() {
				e = e.Elem()
			}
			return fmt.Sprintf("(%s)%s", e.Type().Name(), c38Canon(e))
		}
		return c38Canon(v.Elem())
	case reflect.Struct:
		var ss []string
		t := v.Type()
		for i := 0; i < t.NumField(); i++ {
			f := t.Field(i)
			if f.PkgPath != "" || strings.HasPrefix(f.Name, "XXX_") {
				continue
			}
			ss = append(ss, f.Name+":"+c38Canon(v.Field(i)))
		}
		return "{" + strings.Join(ss, " ") + "}"
	case reflect.Slice:
		if v.Type().Elem().Kind() == reflect.Uint8 {
			return fmt.Sprintf("bytes:%x", v.Bytes())
		}
		var ss []string
		for i := 0; i < v.Len(); i++ {
			ss = append(ss, c38Canon(v.Index(i)))
		}
		return "[" + strings.Join(ss, ",") + "]"
	case reflect.Map:
		var ss []string
		for _, k := range v.MapKeys() {
			ss = append(ss, fmt.Sprint(k.Interface())+"="+c38Canon(v.MapIndex(k)))
		}
		sort.Strings(ss)
		return "map[" + strings.Join(ss, ",") + "]"
	}
	return fmt.Sprint(v.Interface())
}

// ---------------------------------------------------------------- type table

type c38Type struct {
	name   string
	typ    reflect.Type
	legacy bool // existed before the protobuf upgrade: legacy binary round trip required
	msgs   func() []sdk.Msg
	// fix makes a generated value a valid instance (derived fields)
	fix func(v reflect.Value)
}

func c38Msgs() []sdk.Msg {
	g := &c38Gen{}
	mk := func(x interface{}) sdk.Msg {
		return g.build(reflect.TypeOf(x), "m").Addr().Interface().(sdk.Msg)
	}
	_ = mk
	var out []sdk.Msg
	for _, x := range []interface{}{nodesTypes.MsgSend{}, nodesTypes.MsgStake{}, nodesTypes.MsgBeginUnstake{}, nodesTypes.MsgUnjail{}, appsTypes.MsgStake{}, appsTypes.MsgBeginUnstake{}, appsTypes.MsgUnjail{},
		govTypes.MsgChangeParam{}, govTypes.MsgDAOTransfer{}, govTypes.MsgUpgrade{}, pcTypes.MsgClaim{}, pcTypes.MsgProof{}} {
		p := reflect.New(reflect.TypeOf(x))
		p.Elem().Set(g.build(reflect.TypeOf(x), "m"))
		out = append(out, p.Interface().(sdk.Msg))
	}
	return out
}

func c38Types() []c38Type {
	fixVal := func(v reflect.Value) {
		val := v.Interface().(*nodesTypes.Validator)
		val.Address = sdk.Address(val.PublicKey.Address())
	}
	fixApp := func(v reflect.Value) {
		a := v.Interface().(*appsTypes.Application)
		a.Address = sdk.Address(a.PublicKey.Address())
	}
	return []c38Type{
		{name: "nodes.MsgSend", typ: reflect.TypeOf(nodesTypes.MsgSend{}), legacy: true},
		{name: "nodes.MsgStake", typ: reflect.TypeOf(nodesTypes.MsgStake{})},
		{name: "nodes.LegacyMsgStake", typ: reflect.TypeOf(nodesTypes.LegacyMsgStake{}), legacy: true},
		{name: "nodes.MsgBeginUnstake", typ: reflect.TypeOf(nodesTypes.MsgBeginUnstake{})},
		{name: "nodes.LegacyMsgBeginUnstake", typ: reflect.TypeOf(nodesTypes.LegacyMsgBeginUnstake{}), legacy: true},
		{name: "nodes.MsgUnjail", typ: reflect.TypeOf(nodesTypes.MsgUnjail{})},
		{name: "nodes.LegacyMsgUnjail", typ: reflect.TypeOf(nodesTypes.LegacyMsgUnjail{}), legacy: true},
		{name: "apps.MsgStake", typ: reflect.TypeOf(appsTypes.MsgStake{}), legacy: true},
		{name: "apps.MsgBeginUnstake", typ: reflect.TypeOf(appsTypes.MsgBeginUnstake{}), legacy: true},
		{name: "apps.MsgUnjail", typ: reflect.TypeOf(appsTypes.MsgUnjail{}), legacy: true},
		{name: "gov.MsgChangeParam", typ: reflect.TypeOf(govTypes.MsgChangeParam{}), legacy: true},
		{name: "gov.MsgDAOTransfer", typ: reflect.TypeOf(govTypes.MsgDAOTransfer{}), legacy: true},
		{name: "gov.MsgUpgrade", typ: reflect.TypeOf(govTypes.MsgUpgrade{}), legacy: true},
		{name: "pocketcore.MsgClaim", typ: reflect.TypeOf(pcTypes.MsgClaim{}), legacy: true},
		{name: "pocketcore.MsgProof", typ: reflect.TypeOf(pcTypes.MsgProof{}), legacy: true},
		{name: "auth.BaseAccount", typ: reflect.TypeOf(authTypes.BaseAccount{}), legacy: true},
		{name: "auth.ModuleAccount", typ: reflect.TypeOf(authTypes.ModuleAccount{}), legacy: true},
		{name: "auth.Supply", typ: reflect.TypeOf(authTypes.Supply{}), legacy: true},
		{name: "nodes.Validator", typ: reflect.TypeOf(nodesTypes.Validator{}), fix: fixVal},
		{name: "nodes.LegacyValidator", typ: reflect.TypeOf(nodesTypes.LegacyValidator{}), legacy: true},
		{name: "apps.Application", typ: reflect.TypeOf(appsTypes.Application{}), legacy: true, fix: fixApp},
		{name: "pocketcore.Evidence", typ: reflect.TypeOf(pcTypes.Evidence{})},
		{name: "gov.ACL", typ: reflect.TypeOf(govTypes.ACL{}), legacy: true},
		{name: "gov.Upgrade", typ: reflect.TypeOf(govTypes.Upgrade{}), legacy: true},
		{name: "auth.StdTx", typ: reflect.TypeOf(authTypes.StdTx{}), msgs: c38Msgs},
		{name: "nodes.Params", typ: reflect.TypeOf(nodesTypes.Params{})},
		{name: "apps.Params", typ: reflect.TypeOf(appsTypes.Params{})},
		{name: "pocketcore.Params", typ: reflect.TypeOf(pcTypes.Params{})},
		{name: "auth.Params", typ: reflect.TypeOf(authTypes.Params{})},
	}
}

// c38Selections: the typical value, every single-leaf deviation, and (deviation bound 2) every pair.
func c38Selections(t c38Type, bound int) (sels []map[string]int, leaves int) {
	g := &c38Gen{rec: map[string]int{}}
	if t.msgs != nil {
		g.msgAlts = t.msgs()
	}
	g.build(t.typ, t.name)
	// leaves that only exist under a non-typical choice (second slice element, other interface arm) are found by
	// rebuilding under each single deviation
	for i := 0; i < len(g.order); i++ {
		p := g.order[i]
		for a := 1; a < g.rec[p]; a++ {
			g.sel = map[string]int{p: a}
			g.build(t.typ, t.name)
		}
	}
	g.sel = nil
	sels = append(sels, map[string]int{})
	for _, p := range g.order {
		for a := 1; a < g.rec[p]; a++ {
			sels = append(sels, map[string]int{p: a})
		}
	}
	if bound >= 3 {
		for i, p := range g.order {
			for j, q := range g.order[i+1:] {
				for _, w := range g.order[i+1+j+1:] {
					for a := 1; a < g.rec[p]; a++ {
						for b := 1; b < g.rec[q]; b++ {
							for d := 1; d < g.rec[w]; d++ {
								sels = append(sels, map[string]int{p: a, q: b, w: d})
							}
						}
					}
				}
			}
		}
	}
	if bound >= 2 {
		for i, p := range g.order {
			for _, q := range g.order[i+1:] {
				for a := 1; a < g.rec[p]; a++ {
					for b := 1; b < g.rec[q]; b++ {
						sels = append(sels, map[string]int{p: a, q: b})
					}
				}
			}
		}
	}
	return sels, len(g.order)
}

func c38Value(t c38Type, sel map[string]int) reflect.Value {
	g := &c38Gen{sel: sel}
	if t.msgs != nil {
		g.msgAlts = t.msgs()
	}
	p := reflect.New(t.typ)
	p.Elem().Set(g.build(t.typ, t.name))
	if t.fix != nil {
		t.fix(p)
	}
	return p
}

func selText(sel map[string]int) string {
	var ss []string
	for k, v := range sel {
		ss = append(ss, fmt.Sprintf("%s#%d", k, v))
	}
	sort.Strings(ss)
	if len(ss) == 0 {
		return "typical value"
	}
	return strings.Join(ss, " + ")
}

const (
	c38LegacyHeight = 1000
	c38ProtoHeight  = 80001
)

func init() {
	chainInvariants["c38:roundtrip"] = func(r *replica, res *JobResult) {
		acc := newEvalAcc(res)
		defer acc.finish()
		want := r.args["type"]
		bound := int(atoi(r.args["bound"]))
		part, parts := int(atoi(r.args["part"])), int(atoi(r.args["parts"]))
		if parts == 0 {
			parts = 1
		}
		cdc := r.app.VerifCodec()
		cdc.DisableUpgradeOverride()
		ak, nk, _, _, pk := r.app.VerifKeepers()
		base := r.ctxNow()
		for _, t := range c38Types() {
			if t.name != want {
				continue
			}
			sels, _ := c38Selections(t, bound)
			for si, sel := range sels {
				if si%parts != part {
					continue
				}
				orig := c38Value(t, sel)
				oc := c38Canon(orig)
				desc := fmt.Sprintf("%s with %s", t.name, selText(sel))
				cmp := func(path string, got reflect.Value, err error, encErr error) {
					acc.evals++
					if encErr != nil {
						acc.viol("roundtrip/"+t.name+"/"+path+"/encode-error", desc+": "+encErr.Error())
						return
					}
					if err != nil {
						acc.viol("roundtrip/"+t.name+"/"+path+"/decode-error", desc+": "+err.Error())
						return
					}
					if gc := c38Canon(got); gc != oc {
						acc.viol("roundtrip/"+t.name+"/"+path+"/value-differs", desc+fmt.Sprintf(":\n   encoded %s\n   decoded %s", tail(oc, 700), tail(gc, 700)))
					}
					acc.outcome(path)
				}
				safe := func(path string, f func()) {
					if p := safely(f); p != nil {
						acc.evals++
						acc.viol("roundtrip/"+t.name+"/"+path+"/panic", desc+fmt.Sprintf(": %v", p))
					}
				}
				_, isProto := orig.Interface().(codec.ProtoMarshaler)
				isParams := strings.HasSuffix(t.name, ".Params")
				if isProto && !isParams {
					safe("proto-binary", func() {
						bz, e := cdc.MarshalBinaryBare(orig.Interface(), c38ProtoHeight)
						fresh := reflect.New(t.typ)
						var err error
						if e == nil {
							err = cdc.UnmarshalBinaryBare(bz, fresh.Interface(), c38ProtoHeight)
						}
						cmp("proto-binary", fresh, err, e)
					})
					safe("proto-length-prefixed", func() {
						bz, e := cdc.MarshalBinaryLengthPrefixed(orig.Interface(), c38ProtoHeight)
						fresh := reflect.New(t.typ)
						var err error
						if e == nil {
							err = cdc.UnmarshalBinaryLengthPrefixed(bz, fresh.Interface(), c38ProtoHeight)
						}
						cmp("proto-length-prefixed", fresh, err, e)
					})
				}
				if t.legacy {
					safe("legacy-binary", func() {
						bz, e := cdc.MarshalBinaryBare(orig.Interface(), c38LegacyHeight)
						fresh := reflect.New(t.typ)
						var err error
						if e == nil {
							err = cdc.UnmarshalBinaryBare(bz, fresh.Interface(), c38LegacyHeight)
						}
						cmp("legacy-binary", fresh, err, e)
					})
					safe("legacy-length-prefixed", func() {
						bz, e := cdc.MarshalBinaryLengthPrefixed(orig.Interface(), c38LegacyHeight)
						fresh := reflect.New(t.typ)
						var err error
						if e == nil {
							err = cdc.UnmarshalBinaryLengthPrefixed(bz, fresh.Interface(), c38LegacyHeight)
						}
						cmp("legacy-length-prefixed", fresh, err, e)
					})
				}
				if isProto && !isParams && t.legacy {
					// the fallback branch of the codec: bytes in the current encoding read at a height before the codec upgrade
					// (legacy decoding first, current encoding as fallback - what a young chain does with a transaction from
					// the default client path). The opposite direction is not offered by the codec and not demanded.
					for _, x := range []struct {
						path     string
						enc, dec int64
					}{{"proto-bytes-read-before-upgrade", c38ProtoHeight, c38LegacyHeight}} {
						x := x
						safe(x.path+"-binary", func() {
							bz, e := cdc.MarshalBinaryBare(orig.Interface(), x.enc)
							fresh := reflect.New(t.typ)
							var err error
							if e == nil {
								err = cdc.UnmarshalBinaryBare(bz, fresh.Interface(), x.dec)
							}
							cmp(x.path+"-binary", fresh, err, e)
						})
						safe(x.path+"-length-prefixed", func() {
							bz, e := cdc.MarshalBinaryLengthPrefixed(orig.Interface(), x.enc)
							fresh := reflect.New(t.typ)
							var err error
							if e == nil {
								err = cdc.UnmarshalBinaryLengthPrefixed(bz, fresh.Interface(), x.dec)
							}
							cmp(x.path+"-length-prefixed", fresh, err, e)
						})
					}
				}
				if t.name != "pocketcore.Evidence" {
					safe("json", func() {
						bz, e := cdc.MarshalJSON(orig.Interface())
						fresh := reflect.New(t.typ)
						var err error
						if e == nil {
							err = cdc.UnmarshalJSON(bz, fresh.Interface())
						}
						cmp("json", fresh, err, e)
					})
				}
				// storage paths of the real keepers (cache branch of the real state)
				ctx, _ := base.CacheContext()
				switch x := orig.Interface().(type) {
				case *nodesTypes.Validator:
					safe("store", func() {
						bz, e := nk.MarshalValidator(ctx, *x)
						var got nodesTypes.Validator
						var err error
						if e == nil {
							got, err = nk.UnmarshalValidator(ctx, bz)
						}
						cmp("store", reflect.ValueOf(&got), err, e)
					})
				case *appsTypes.Application:
					safe("store", func() {
						bz, e := appsTypes.MarshalApplication(cdc, ctx, *x)
						var got appsTypes.Application
						var err error
						if e == nil {
							got, err = appsTypes.UnmarshalApplication(cdc, ctx, bz)
						}
						cmp("store", reflect.ValueOf(&got), err, e)
					})
				case *authTypes.BaseAccount:
					if len(x.Address) == 20 {
						safe("store", func() {
							ak.SetAccount(ctx, x)
							got := ak.GetAccount(ctx, x.Address)
							cmp("store", reflect.ValueOf(got), nil, nil)
						})
					}
				case *authTypes.ModuleAccount:
					if len(x.Address) == 20 {
						safe("store", func() {
							ak.SetAccount(ctx, x)
							got := ak.GetAccount(ctx, x.Address)
							cmp("store", reflect.ValueOf(got), nil, nil)
						})
					}
				case *pcTypes.MsgClaim:
					if len(x.FromAddress) == 20 && x.ExpirationHeight != 0 {
						safe("store", func() {
							e := pk.SetClaim(ctx, *x)
							if e != nil {
								acc.outcome("claim-key-rejected")
								return
							}
							got, found := pk.GetClaim(ctx, x.FromAddress, x.SessionHeader, x.EvidenceType)
							var err error
							if !found {
								err = fmt.Errorf("claim not found after SetClaim")
							}
							cmp("store", reflect.ValueOf(&got), err, nil)
						})
					}
				case *pcTypes.Evidence:
					safe("cache-object", func() {
						bz, e := x.MarshalObject()
						var got pcTypes.CacheObject
						var err error
						if e == nil {
							got, err = x.UnmarshalObject(bz)
						}
						var gv reflect.Value
						if got != nil {
							g := got.(pcTypes.Evidence)
							gv = reflect.ValueOf(&g)
						}
						cmp("cache-object", gv, err, e)
					})
					safe("legacy-cache-object", func() {
						bz, e := x.LegacyAminoMarshal()
						var got pcTypes.CacheObject
						var err error
						if e == nil {
							got, err = x.LegacyAminoUnmarshal(bz)
						}
						var gv reflect.Value
						if got != nil {
							g := got.(pcTypes.Evidence)
							gv = reflect.ValueOf(&g)
						}
						cmp("legacy-cache-object", gv, err, e)
					})
				case *nodesTypes.Params:
					safe("param-store", func() {
						nk.SetParams(ctx, *x)
						got := nk.GetParams(ctx)
						cmp("param-store", reflect.ValueOf(&got), nil, nil)
					})
				case *pcTypes.Params:
					safe("param-store", func() {
						pk.SetParams(ctx, *x)
						got := pk.GetParams(ctx)
						cmp("param-store", reflect.ValueOf(&got), nil, nil)
					})
				case *authTypes.Params:
					safe("param-store", func() {
						ak.SetParams(ctx, *x)
						got := ak.GetParams(ctx)
						cmp("param-store", reflect.ValueOf(&got), nil, nil)
					})
				case *authTypes.StdTx:
					for _, h := range []int64{c38ProtoHeight} {
						safe("tx-codec", func() {
							bz, e := authTypes.DefaultTxEncoder(cdc)(*x, h)
							var got sdk.Tx
							var err error
							if e == nil {
								var se sdk.Error
								got, se = authTypes.DefaultTxDecoder(cdc)(bz, h)
								if se != nil {
									err = se
								}
							}
							var gv reflect.Value
							if got != nil {
								g := got.(authTypes.StdTx)
								gv = reflect.ValueOf(&g)
							}
							cmp("tx-codec", gv, err, e)
						})
					}
				}
			}
		}
	}

	register(&Check{ID: "C38", QuickBud: 150 * time.Second, ThorBud: 40 * time.Minute,
		Run: func(c *ev.Ctx) {
			c.Rule = "For each of 29 message/state/parameter types a reflective generator gives every leaf field a typical value and 2-5 alternatives (empty, maximal, nil vs empty slices and maps, multi-element, unicode, both key types, multisig and absent keys, both proof kinds, every message inside StdTx); the typical value and EVERY combination of up to 2 (thorough: 3) non-typical leaves is encoded and decoded through the current binary codec (bare and length-prefixed), the legacy binary codec (types that predate the upgrade), JSON, and the storage path of the real keeper (validator, application, account, claim, evidence cache object, parameter store, transaction encoder/decoder); the decoded value must equal the original (nil and empty collections identified). Sign bytes: every permutation of the top-level and nested fields of a sign document and delegator maps built in every insertion order give identical bytes"
			c.Assume("deviation bound 2 (quick) / 3 (thorough) from the typical value: every combination of up to that many non-typical leaf values; field alternatives are finite lists")
			var shards []map[string]string
			for _, t := range c38Types() {
				bound, parts := 2, 2
				if c.Tier == "thorough" {
					bound, parts = 3, 32
				}
				for p := 0; p < parts; p++ {
					shards = append(shards, map[string]string{"type": t.name, "bound": fmt.Sprint(bound), "part": fmt.Sprint(p), "parts": fmt.Sprint(parts)})
				}
			}
			runEvalShards(c, "codec", defaultEnv(), nil, "c38:roundtrip", shards)
			getPool().Close()
			c38SignBytes(c)
		},
		Replay: func(raw json.RawMessage) (string, error) {
			var probe map[string]json.RawMessage
			_ = json.Unmarshal(raw, &probe)
			if _, ok := probe["job"]; ok {
				return evalReplayFn(raw)
			}
			return string(raw), fmt.Errorf("sign-bytes replay: re-run the check (pure enumeration)")
		},
	})
}

// c38SignBytes: canonical sign bytes.
func c38SignBytes(c *ev.Ctx) {
	resetGlobals(defaultEnv())
	_ = chainCodec()
	var n int64
	// (a) SortJSON over every field order of nested documents
	docs := []map[string]interface{}{
		{"chain_id": "c", "entropy": "1", "fee": []interface{}{map[string]interface{}{"amount": "1", "denom": "upokt"}}, "memo": "", "msg": map[string]interface{}{"type": "pos/Send", "value": map[string]interface{}{"amount": "5", "from_address": "aa", "to_address": "bb"}}},
		{"z": 1, "a": map[string]interface{}{"y": []interface{}{3, 2, 1}, "b": "x", "c": nil}, "m": true, "k": "ü"},
	}
	for di, d := range docs {
		ref := ""
		var emit func(v interface{}, choose func(n int) []int) string
		emit = func(v interface{}, choose func(n int) []int) string {
			switch x := v.(type) {
			case map[string]interface{}:
				var ks []string
				for k := range x {
					ks = append(ks, k)
				}
				sort.Strings(ks)
				perm := choose(len(ks))
				var parts []string
				for _, i := range perm {
					kb, _ := json.Marshal(ks[i])
					parts = append(parts, string(kb)+":"+emit(x[ks[i]], choose))
				}
				return "{" + strings.Join(parts, ",") + "}"
			case []interface{}:
				var parts []string
				for _, e := range x {
					parts = append(parts, emit(e, choose))
				}
				return "[" + strings.Join(parts, ",") + "]"
			}
			b, _ := json.Marshal(v)
			return string(b)
		}
		// enumerate: every permutation for the top-level object crossed with every rotation/reversal below it
		var perms func(n int) [][]int
		perms = func(n int) [][]int {
			if n == 0 {
				return [][]int{{}}
			}
			var out [][]int
			for _, p := range perms(n - 1) {
				for i := 0; i <= len(p); i++ {
					q := append(append(append([]int{}, p[:i]...), n-1), p[i:]...)
					out = append(out, q)
				}
			}
			return out
		}
		top := len(d)
		for _, tp := range perms(top) {
			for inner := 0; inner < 6; inner++ {
				first := true
				choose := func(n int) []int {
					if first {
						first = false
						return tp
					}
					ps := perms(n)
					return ps[(inner*7+n)%len(ps)]
				}
				in := emit(d, choose)
				out, err := sdk.SortJSON([]byte(in))
				n++
				if err != nil {
					c.Report("signbytes/sortjson-error", fmt.Sprintf("document %d ordering %s: %v", di, in, err), in)
					continue
				}
				if ref == "" {
					ref = string(out)
				} else if string(out) != ref {
					c.Report("signbytes/field-order-dependent", fmt.Sprintf("SortJSON(%s) = %s, another field order gave %s", in, out, ref), in)
				}
				c.Distinct("sortjson|" + in)
			}
		}
	}
	// (b) delegator maps built in every insertion order; sign bytes and StdSignBytes repeated
	addrs := []string{strings.Repeat("a1", 20), strings.Repeat("00", 20), strings.Repeat("ff", 20), strings.Repeat("7c", 20)}
	var orders [][]int
	var rec func(cur []int, used int)
	rec = func(cur []int, used int) {
		if len(cur) == len(addrs) {
			orders = append(orders, append([]int{}, cur...))
			return
		}
		for i := range addrs {
			if used&(1<<i) == 0 {
				rec(append(cur, i), used|1<<i)
			}
		}
	}
	rec(nil, 0)
	ref := ""
	for _, o := range orders {
		m := map[string]uint32{}
		for _, i := range o {
			m[addrs[i]] = uint32(10 + i)
		}
		msg := &nodesTypes.MsgStake{PublicKey: edKey(30).PublicKey(), Chains: []string{"0001"}, Value: sdk.NewInt(1), ServiceUrl: "https://x:1", Output: sdk.Address(bytes.Repeat([]byte{1}, 20)), RewardDelegators: m}
		for rep := 0; rep < 20; rep++ {
			sb, err := authTypes.StdSignBytes("chain", 7, sdk.NewCoins(sdk.NewCoin("upokt", sdk.NewInt(10000))), msg, "memo")
			n++
			if err != nil {
				c.Report("signbytes/error", err.Error(), nil)
				continue
			}
			if ref == "" {
				ref = string(sb)
			} else if string(sb) != ref {
				c.Report("signbytes/map-order-dependent", fmt.Sprintf("sign bytes of a stake message with 4 reward delegators differ between two evaluations:\n%s\n%s", sb, ref), nil)
			}
		}
		c.Distinct(fmt.Sprint("signbytes|", o))
	}
	c.AddEvals(n)
	c.OutcomeN("sign-bytes-evaluations", n)
	c.BoundDone += fmt.Sprintf("sign bytes: %d evaluations; ", n)
}
