package checks

import (
	"encoding/json"
	"fmt"
	"sort"
	"strconv"
	"strings"
	"time"

	"verif/internal/ev"
)

func obsStrMap(r JobResult, key string) map[string]string {
	out := map[string]string{}
	m, _ := r.Obs[key].(map[string]interface{})
	for k, v := range m {
		out[k] = fmt.Sprint(v)
	}
	return out
}

func mapDiff(a, b map[string]string) []string {
	var d []string
	for k, v := range b {
		if a[k] != v {
			d = append(d, fmt.Sprintf("%s: %s -> %s", k, a[k], v))
		}
	}
	for k, v := range a {
		if _, ok := b[k]; !ok {
			d = append(d, fmt.Sprintf("%s: %s -> (gone)", k, v))
		}
	}
	sort.Strings(d)
	return d
}

// c36NewValue: a different, well-formed value for a parameter given its current raw JSON; "" if none is derived.
func c36NewValue(cur string) string {
	c := strings.TrimSpace(cur)
	if len(c) >= 2 && c[0] == '"' && c[len(c)-1] == '"' {
		inner := c[1 : len(c)-1]
		if n, err := strconv.ParseInt(inner, 10, 64); err == nil {
			return fmt.Sprintf(`"%d"`, n+1)
		}
		if strings.Contains(inner, ".") {
			if _, err := strconv.ParseFloat(inner, 64); err == nil {
				return `"0.250000000000000000"`
			}
		}
		return ""
	}
	if c == "true" {
		return "false"
	}
	if c == "false" {
		return "true"
	}
	return ""
}

func c36Cases(ref JobResult) []chainCase {
	env := defaultEnv()
	var cases []chainCase
	params := obsStrMap(ref, "params")
	var keys []string
	for k := range params {
		keys = append(keys, k)
	}
	sort.Strings(keys)
	aclKeys := map[string]bool{}
	for _, k := range chainACLKeys() {
		aclKeys[k] = true
	}
	for _, key := range keys {
		cur := params[key]
		nv := c36NewValue(cur)
		values := map[string]string{"same": cur, "wrong-type": `{"x":1}`, "garbage": `not json`}
		if nv != "" {
			values["changed"] = nv
		}
		for vn, val := range values {
			for _, signer := range []string{"G", "D", "A2"} {
				key, vn, val, signer, cur := key, vn, val, signer, cur
				t := tx("gov_param", signer, "from", signer, "key", key, "value", val)
				owner := signer == "G" && aclKeys[key]
				cases = append(cases, chainCase{Name: fmt.Sprintf("param/%s/%s/by-%s", key, vn, signer), Class: "param-" + vn + "-" + boolStr(owner, "owner", "other"), Env: env, Want: []string{"balances"},
					Ref: []BlockSpec{{}}, Subject: []BlockSpec{blk(t)},
					Oracle: func(r, s JobResult) (string, string) {
						before, after := obsStrMap(r, "params"), obsStrMap(s, "params")
						d := mapDiff(before, after)
						desc := fmt.Sprintf("parameter change %s = %s signed by %s (ACL owner of that key: %v), result code %d: parameter store changes %v", key, val, signer, owner, lastTx(s).Code, d)
						if !owner && len(d) > 0 {
							return "param-changed-by-non-owner", desc
						}
						for _, x := range d {
							if !strings.HasPrefix(x, key[strings.Index(key, "/")+1:]+":") && !strings.HasPrefix(x, key+":") {
								return "other-param-changed", desc
							}
						}
						if owner && vn == "changed" {
							if after[key] != val {
								return "owner-change-not-applied", desc + fmt.Sprintf(" (stored value %s, was %s)", after[key], cur)
							}
						}
						// funds: nobody but the fee payer moves
						bd := balanceDelta(r, s)
						for acct, v := range bd {
							if acct != signer && acct != "module:fee_collector" && v != 0 {
								return "param-change-moved-funds", desc + " balances " + deltaStr(bd)
							}
						}
						return "", ""
					}})
			}
		}
	}
	// DAO transfers and burns; ownership states: the genesis owner D, ownership handed to A2 by a parameter change,
	// and the owner parameter cleared (then nobody may move DAO funds). The owner is read from the parameter store of
	// the reference run.
	type ownerState struct {
		name string
		pre  []BlockSpec
	}
	ownerStates := []ownerState{{"", nil},
		{"owner-moved-to-A2", []BlockSpec{blk(tx("gov_param", "G", "from", "G", "key", "gov/daoOwner", "value", `"`+caddr("A2").String()+`"`))}},
		{"owner-cleared", []BlockSpec{blk(tx("gov_param", "G", "from", "G", "key", "gov/daoOwner", "value", `""`))}}}
	for _, os := range ownerStates[1:] {
		for _, action := range []string{"dao_transfer", "dao_burn"} {
			for _, signer := range []string{"D", "G", "A2"} {
				os, action, signer := os, action, signer
				t := tx("gov_dao", signer, "from", signer, "action", action, "to", "A1", "amount", "7")
				cases = append(cases, chainCase{Name: fmt.Sprintf("dao/%s/%s/by-%s", os.name, action, signer), Class: action + "-" + os.name, Env: env, Want: []string{"balances", "supply"},
					Ref: append(append([]BlockSpec{}, os.pre...), BlockSpec{}), Subject: append(append([]BlockSpec{}, os.pre...), blk(t)),
					Oracle: func(r, s JobResult) (string, string) {
						bd := balanceDelta(r, s)
						stored := strings.Trim(obsStrMap(r, "params")["gov/daoOwner"], `"`)
						isOwner := stored != "" && strings.EqualFold(stored, caddr(signer).String())
						fee := requiredFee(t)
						want := map[string]int64{signer: -fee, "module:fee_collector": fee}
						if isOwner {
							want["module:dao"] = -7
							if action == "dao_transfer" {
								want["A1"] = 7
							}
						}
						desc := fmt.Sprintf("%s of 7 signed by %s after %s (stored DAO owner %q, signer is the owner: %v): result code %d, balance changes %s, expected %s", action, signer, os.name, stored, isOwner, lastTx(s).Code, deltaStr(bd), deltaStr(want))
						if !deltaEq(bd, want) {
							if !isOwner && bd["module:dao"] != 0 {
								return "dao-funds-moved-by-non-owner", desc
							}
							return "dao-balances", desc
						}
						return "", ""
					}})
			}
		}
	}
	for _, action := range []string{"dao_transfer", "dao_burn"} {
		for _, amt := range []string{"1", "B-1", "B", "B+1", "-5"} {
			for _, signer := range []string{"D", "G", "A2"} {
				action, amt, signer := action, amt, signer
				daoBal := obsBalances(ref)["module:dao"].Int64()
				switch amt {
				case "B-1":
					amt = fmt.Sprint(daoBal - 1)
				case "B":
					amt = fmt.Sprint(daoBal)
				case "B+1":
					amt = fmt.Sprint(daoBal + 1)
				}
				t := tx("gov_dao", signer, "from", signer, "action", action, "to", "A1", "amount", amt)
				cases = append(cases, chainCase{Name: fmt.Sprintf("dao/%s/%s/by-%s", action, amt, signer), Class: action + "-" + boolStr(signer == "D", "owner", "other"), Env: env, Want: []string{"balances", "supply"},
					Ref: []BlockSpec{{}}, Subject: []BlockSpec{blk(t)},
					Oracle: func(r, s JobResult) (string, string) {
						bd := balanceDelta(r, s)
						n, _ := strconv.ParseInt(amt, 10, 64)
						fee := requiredFee(t)
						want := map[string]int64{}
						authOK := true // the declared sender signs: fee is charged when the tx passes ValidateBasic
						if n == 0 {
							authOK = false
						}
						if authOK {
							want[signer] = -fee
							want["module:fee_collector"] = fee
						}
						if signer == "D" && n > 0 && n <= daoBal {
							want["module:dao"] = -n
							if action == "dao_transfer" {
								want["A1"] = n
							}
						}
						desc := fmt.Sprintf("%s of %s signed by %s (DAO owner: %v, DAO holds %d): result code %d, balance changes %s, expected %s", action, amt, signer, signer == "D", daoBal, lastTx(s).Code, deltaStr(bd), deltaStr(want))
						if !deltaEq(bd, want) {
							if signer != "D" && bd["module:dao"] != 0 {
								return "dao-funds-moved-by-non-owner", desc
							}
							return "dao-balances", desc
						}
						return "", ""
					}})
			}
		}
	}
	// the ACL itself changes hands: governance gives pos/MaxValidators to A2. From the very next transaction on - in the
	// same block or in the next one - A2 may change that parameter and the previous owner G may not.
	if aclRaw := params["gov/acl"]; aclRaw != "" {
		var acl struct {
			Type  string                   `json:"type"`
			Value []map[string]interface{} `json:"value"`
		}
		if err := json.Unmarshal([]byte(aclRaw), &acl); err == nil && len(acl.Value) > 0 {
			for _, e := range acl.Value {
				if e["acl_key"] == "pos/MaxValidators" {
					e["address"] = caddr("A2").String()
				}
			}
			nv, _ := json.Marshal(acl)
			handover := tx("gov_param", "G", "from", "G", "key", "gov/acl", "value", string(nv))
			for _, signer := range []string{"G", "A2", "D"} {
				for _, same := range []bool{true, false} {
					signer, same := signer, same
					ch := tx("gov_param", signer, "from", signer, "key", "pos/MaxValidators", "value", `"7"`)
					ref, sub := []BlockSpec{blk(handover)}, []BlockSpec{blk(handover, ch)}
					if !same {
						ref, sub = []BlockSpec{blk(handover), {}}, []BlockSpec{blk(handover), blk(ch)}
					}
					cases = append(cases, chainCase{Name: fmt.Sprintf("acl-handover/%s/by-%s", boolStr(same, "same-block", "next-block"), signer), Class: "acl-handover-" + boolStr(signer == "A2", "new-owner", "other"), Env: env, Want: []string{"balances"},
						Ref: ref, Subject: sub,
						Oracle: func(r, s JobResult) (string, string) {
							if r.Blocks[0].Txs[0].Code != 0 {
								return "harness:acl", fmt.Sprintf("the ACL change of the scenario was refused (code %d)", r.Blocks[0].Txs[0].Code)
							}
							before, after := obsStrMap(r, "params"), obsStrMap(s, "params")
							d := mapDiff(before, after)
							desc := fmt.Sprintf("the ACL owner hands pos/MaxValidators to A2; then (%s) %s asks for pos/MaxValidators = 7: result code %d, parameter store changes %v", boolStr(same, "same block", "next block"), signer, lastTx(s).Code, d)
							if signer == "A2" {
								if after["pos/MaxValidators"] != `"7"` && after["pos/MaxValidators"] != "7" {
									return "new-acl-owner-refused", desc
								}
								return "", ""
							}
							if len(d) > 0 {
								return "param-changed-by-non-owner", desc
							}
							return "", ""
						}})
				}
			}
		}
	}
	// parameter names that extend another parameter's name (pos/RelaysToTokensMultiplier / ...MultiplierMap,
	// pos/ServicerStakeFloorMultiplier / ...MultiplierExponent): owning the shorter one gives no right over the longer one
	if aclRaw := params["gov/acl"]; aclRaw != "" {
		for _, pair := range [][2]string{{"pos/RelaysToTokensMultiplier", "pos/RelaysToTokensMultiplierMap"}, {"pos/ServicerStakeFloorMultiplier", "pos/ServicerStakeFloorMultiplierExponent"}} {
			short, long := pair[0], pair[1]
			if params[long] == "" {
				continue
			}
			var acl struct {
				Type  string                   `json:"type"`
				Value []map[string]interface{} `json:"value"`
			}
			if err := json.Unmarshal([]byte(aclRaw), &acl); err != nil {
				continue
			}
			ownerOfLong := ""
			for _, e := range acl.Value {
				if e["acl_key"] == short {
					e["address"] = caddr("A2").String()
				}
				if e["acl_key"] == long {
					for _, role := range []string{"G", "D", "A2"} {
						if strings.EqualFold(caddr(role).String(), fmt.Sprint(e["address"])) {
							ownerOfLong = role
						}
					}
				}
			}
			if ownerOfLong == "A2" {
				continue
			}
			if ownerOfLong == "" { // not in the ACL of this genesis: the hand-over also enters it, owned by G
				acl.Value = append(acl.Value, map[string]interface{}{"acl_key": long, "address": caddr("G").String()})
				ownerOfLong = "G"
			}
			nv, _ := json.Marshal(acl)
			handover := tx("gov_param", "G", "from", "G", "key", "gov/acl", "value", string(nv))
			for _, signer := range []string{"A2", ownerOfLong} {
				signer, long, short := signer, long, short
				ch := tx("gov_param", signer, "from", signer, "key", long, "value", params[long])
				cases = append(cases, chainCase{Name: fmt.Sprintf("acl-prefix-names/%s/by-%s", long, signer), Class: "acl-prefix-" + boolStr(signer == ownerOfLong, "owner", "other"), Env: env, Want: []string{"balances"},
					Ref: []BlockSpec{blk(handover), {}}, Subject: []BlockSpec{blk(handover), blk(ch)},
					Oracle: func(r, s JobResult) (string, string) {
						if r.Blocks[0].Txs[0].Code != 0 {
							return "harness:acl", fmt.Sprintf("the ACL change of the scenario was refused (code %d)", r.Blocks[0].Txs[0].Code)
						}
						desc := fmt.Sprintf("A2 owns %s, %s owns %s; %s asks to set %s (to its current value): result code %d", short, ownerOfLong, long, signer, long, lastTx(s).Code)
						if (lastTx(s).Code == 0) != (signer == ownerOfLong) {
							return "acl-owner-of-similarly-named-parameter", desc
						}
						return "", ""
					}})
			}
		}
	}
	// a message that NAMES the owner as sender but is signed by somebody else (the recipient, an unrelated key):
	// the DAO balance and every balance except possibly the signer's own fee must stay as they are
	for _, action := range []string{"dao_transfer", "dao_burn"} {
		for _, signer := range []string{"A2", "A1", "G"} {
			action, signer := action, signer
			t := tx("gov_dao", signer, "from", "D", "action", action, "to", signer, "amount", "7")
			cases = append(cases, chainCase{Name: fmt.Sprintf("dao/%s/owner-named-signed-by-%s", action, signer), Class: action + "-spoofed-sender", Env: env, Want: []string{"balances", "supply"},
				Ref: []BlockSpec{{}}, Subject: []BlockSpec{blk(t)},
				Oracle: func(r, s JobResult) (string, string) {
					bd := balanceDelta(r, s)
					desc := fmt.Sprintf("%s naming the DAO owner as sender and %s as recipient, signed by %s: result code %d, balance changes %s", action, signer, signer, lastTx(s).Code, deltaStr(bd))
					if bd["module:dao"] != 0 || lastTx(s).Code == 0 {
						return "dao-funds-moved-by-non-owner", desc
					}
					for who, d := range bd {
						if who != signer && who != "module:fee_collector" && d != 0 {
							return "dao-balances", desc
						}
					}
					return "", ""
				}})
		}
	}
	// the same for parameter changes: the ACL owner named, somebody else signs
	for _, signer := range []string{"A2", "D"} {
		signer := signer
		t := tx("gov_param", signer, "from", "G", "key", "pos/MaxValidators", "value", `"7"`)
		cases = append(cases, chainCase{Name: "param/owner-named-signed-by-" + signer, Class: "param-spoofed-sender", Env: env, Want: []string{"balances"},
			Ref: []BlockSpec{{}}, Subject: []BlockSpec{blk(t)},
			Oracle: func(r, s JobResult) (string, string) {
				if lastTx(s).Code == 0 || fmt.Sprint(r.Obs["params"]) != fmt.Sprint(s.Obs["params"]) {
					return "param-changed-by-non-owner", fmt.Sprintf("parameter change naming the ACL owner as sender, signed by %s: result code %d, parameters changed=%v", signer, lastTx(s).Code, fmt.Sprint(r.Obs["params"]) != fmt.Sprint(s.Obs["params"]))
				}
				return "", ""
			}})
	}
	return cases
}

func c37Cases() []chainCase {
	env := defaultEnv()
	base := env.BaseHeight
	type up struct {
		name string
		t    TxSpec
	}
	h := func(d int64) string { return fmt.Sprint(base + d) }
	ups := []up{
		{"upgrade-A", tx("gov_upgrade", "G", "from", "G", "height", h(50), "version", "0.11.5", "features", "FEATA:"+h(20)+"+FEATB:"+h(30))},
		{"feature-only-C", tx("gov_upgrade", "G", "from", "G", "height", "1", "version", "FEATURE", "features", "FEATC:"+h(25))},
		{"feature-only-reschedule-A", tx("gov_upgrade", "G", "from", "G", "height", "1", "version", "FEATURE", "features", "FEATA:"+h(40))},
		{"feature-only-reschedule-A-to-a-six-digit-height", tx("gov_upgrade", "G", "from", "G", "height", "1", "version", "FEATURE", "features", "FEATA:"+h(20000))},
		{"upgrade-B-dups", tx("gov_upgrade", "G", "from", "G", "height", h(60), "version", "0.12.0", "features", "FEATB:"+h(30)+"+FEATB:"+h(35)+"+AAA:"+h(5))},
		{"upgrade-plain-no-features", tx("gov_upgrade", "G", "from", "G", "height", h(65), "version", "0.12.1", "features", "")},
		{"by-stranger", tx("gov_upgrade", "A2", "from", "A2", "height", h(70), "version", "0.12.0", "features", "EVIL:"+h(1))},
		{"malformed-feature", tx("gov_upgrade", "G", "from", "G", "height", "1", "version", "FEATURE", "features", "NOCOLON")},
	}
	var cases []chainCase
	var seqs [][]int
	var rec func(cur []int)
	rec = func(cur []int) {
		if len(cur) > 0 {
			seqs = append(seqs, append([]int{}, cur...))
		}
		if len(cur) == 3 {
			return
		}
		for i := range ups {
			rec(append(cur, i))
		}
	}
	rec(nil)
	for _, sq := range seqs {
		sq := sq
		var blocks []BlockSpec
		var names []string
		for _, i := range sq {
			blocks = append(blocks, blk(ups[i].t))
			names = append(names, ups[i].name)
		}
		withRestart := append(append([]BlockSpec{}, blocks...), BlockSpec{Restart: true})
		cases = append(cases, chainCase{Name: "upgrades/" + strings.Join(names, ","), Class: "upgrade-seq", Env: env, Want: []string{"balances"},
			Ref: append(append([]BlockSpec{}, blocks...), BlockSpec{}), Subject: withRestart,
			Oracle: func(r, s JobResult) (string, string) {
				// shadow schedule: genesis features + accepted upgrades in order (later wins)
				sched := map[string]string{}
				for _, f := range featureList(env.FeatureHeight) {
					kv := strings.SplitN(f, ":", 2)
					sched[kv[0]] = kv[1]
				}
				for bi, i := range sq {
					if r.Blocks[bi].Txs[0].Code != 0 {
						continue
					}
					for _, f := range strings.Split(ups[i].t.Args["features"], "+") {
						kv := strings.SplitN(f, ":", 2)
						if len(kv) == 2 {
							sched[kv[0]] = kv[1]
						}
					}
					if ups[i].name == "by-stranger" {
						return "upgrade-by-non-owner-accepted", fmt.Sprintf("upgrade signed by a stranger was accepted in %v", names)
					}
				}
				check := func(label string, u map[string]string, wantGlobal bool) (string, string) {
					var feats []string
					if u["features"] != "" {
						feats = strings.Split(u["features"], ",")
					}
					if !sort.StringsAreSorted(feats) {
						return "stored-features-not-sorted", fmt.Sprintf("%s after %v: stored feature list %v is not in canonical order", label, names, feats)
					}
					stored := map[string]string{}
					for _, f := range feats {
						kv := strings.SplitN(f, ":", 2)
						if len(kv) != 2 {
							return "stored-feature-malformed", fmt.Sprintf("%s after %v: stored feature %q", label, names, f)
						}
						if _, dup := stored[kv[0]]; dup {
							return "stored-features-duplicate", fmt.Sprintf("%s after %v: feature %s stored twice in %v", label, names, kv[0], feats)
						}
						stored[kv[0]] = kv[1]
					}
					for k, v := range sched {
						if stored[k] != v {
							return "scheduled-feature-lost-or-changed", fmt.Sprintf("%s after %v: feature %s scheduled at %s, stored %q (stored list %v)", label, names, k, v, stored[k], feats)
						}
					}
					for k := range stored {
						if _, ok := sched[k]; !ok {
							return "unscheduled-feature-stored", fmt.Sprintf("%s after %v: feature %s stored but never scheduled", label, names, k)
						}
					}
					glob := map[string]string{}
					for _, f := range strings.Split(u["global_feature_map"], ",") {
						kv := strings.SplitN(f, ":", 2)
						if len(kv) == 2 {
							glob[kv[0]] = kv[1]
						}
					}
					for k, v := range sched {
						if glob[k] != v {
							return "activation-schedule-differs-from-state/" + label, fmt.Sprintf("%s after %v: feature %s scheduled at %s, the node's activation table says %q", label, names, k, v, glob[k])
						}
					}
					return "", ""
				}
				if sig, what := check("running-node", obsStrMap(r, "upgrade"), true); sig != "" {
					return sig, what
				}
				if sig, what := check("restarted-node", obsStrMap(s, "upgrade"), true); sig != "" {
					return sig, what
				}
				a, b := obsStrMap(r, "upgrade"), obsStrMap(s, "upgrade")
				for _, f := range []string{"height", "version", "old_height", "features", "global_upgrade_height", "global_old_upgrade_height"} {
					if a[f] != b[f] {
						return "restart-changes-upgrade-schedule/" + f, fmt.Sprintf("after %v: %s is %q on the running node and %q on the node restarted from its database", names, f, a[f], b[f])
					}
				}
				if lastHash(r) != lastHash(s) {
					return "restart-changes-app-hash", fmt.Sprintf("after %v the restarted node computes another app hash for the following block", names)
				}
				return "", ""
			}})
	}
	return cases
}

func c28Cases() []chainCase {
	env := defaultEnv() // MaxApplications 2, app MaxChains 2, minimum stake 1000000
	var cases []chainCase
	type pre struct {
		name   string
		blocks []BlockSpec
		staked int
	}
	pres := []pre{{"one-app", nil, 1}, {"full", []BlockSpec{blk(tx("app_stake", "P2", "value", "1000000"))}, 2},
		// full, and then one of the staked applications edits its stake without changing its power (chains only / a few uPOKT more)
		{"full-after-chains-only-edit", []BlockSpec{blk(tx("app_stake", "P2", "value", "1000000")), blk(tx("app_stake", "P1", "value", "2000000", "chains", "0001+0002"))}, 2},
		{"full-after-small-bump", []BlockSpec{blk(tx("app_stake", "P2", "value", "1000000")), blk(tx("app_stake", "P2", "value", "1000007"))}, 2}, {"none", []BlockSpec{blk(tx("app_unstake", "P1")), {}, {}}, 0},
		// governance moved the allowance parameters: the allowance of a new stake follows the parameters in force
		{"base-relays-tripled", []BlockSpec{blk(tx("gov_param", "G", "from", "G", "key", "application/BaseRelaysPerPOKT", "value", `"300"`))}, 1},
		{"stability-adjusted", []BlockSpec{blk(tx("gov_param", "G", "from", "G", "key", "application/StabilityAdjustment", "value", `"7"`))}, 1}}
	type req struct {
		name   string
		t      TxSpec
		key    string // application key concerned
		stake  int64
		chains int
	}
	reqs := []req{
		{"below-minimum", tx("app_stake", "A1", "app", "A1", "value", "999999"), "A1", 999999, 1},
		{"minimum", tx("app_stake", "A1", "app", "A1", "value", "1000000"), "A1", 1000000, 1},
		{"more-than-balance", tx("app_stake", "A1", "app", "A1", "value", "9990001"), "A1", 9990001, 1},
		{"all-but-fee", tx("app_stake", "A1", "app", "A1", "value", "9990000"), "A1", 9990000, 1},
		{"max-chains", tx("app_stake", "A1", "app", "A1", "value", "1500000", "chains", "0001+0002"), "A1", 1500000, 2},
		{"too-many-chains", tx("app_stake", "A1", "app", "A1", "value", "1500000", "chains", "0001+0002+0003"), "A1", 1500000, 3},
		{"odd-stake", tx("app_stake", "A1", "app", "A1", "value", "2345678"), "A1", 2345678, 1},
	}
	for _, p := range pres {
		for _, q := range reqs {
			p, q := p, q
			ref := append(append([]BlockSpec{}, p.blocks...), BlockSpec{})
			sub := append(append([]BlockSpec{}, p.blocks...), blk(q.t))
			cases = append(cases, chainCase{Name: fmt.Sprintf("admission/%s/%s", p.name, q.name), Class: "admission-" + p.name, Env: env, Want: []string{"balances", "apppool"}, Ref: ref, Subject: sub,
				Oracle: func(r, s JobResult) (string, string) {
					before, after := obsRecords(r, "apps"), obsRecords(s, "apps")
					nStaked := 0
					for _, a := range before {
						if a["status"] == "2" {
							nStaked++
						}
					}
					bal := obsBalances(r)["A1"].Int64()
					fee := requiredFee(q.t)
					want := q.stake >= 1000000 && q.chains <= 2 && bal-fee >= q.stake && int64(nStaked) < env.MaxApplications
					rec, got := after[q.key]
					got = got && rec["status"] == "2"
					desc := fmt.Sprintf("application stake request %s (stake %d, %d chains, account holds %d, fee %d) with %d of %d application slots taken: result code %d, record %v", q.name, q.stake, q.chains, bal, fee, nStaked, env.MaxApplications, lastTx(s).Code, rec)
					if want != got {
						return "admission-decision", desc + fmt.Sprintf("; admission predicate says %v", want)
					}
					if got {
						if rec["tokens"] != fmt.Sprint(q.stake) {
							return "admitted-with-wrong-stake", desc
						}
						// BaseRelaysPerPOKT (percent) per staked POKT plus the stability adjustment, as stored when the request runs
						prm := obsStrMap(r, "params")
						base, e1 := strconv.ParseInt(strings.Trim(prm["application/BaseRelaysPerPOKT"], `"`), 10, 64)
						adj, e2 := strconv.ParseInt(strings.Trim(prm["application/StabilityAdjustment"], `"`), 10, 64)
						if e1 != nil || e2 != nil {
							return "harness:params", fmt.Sprintf("cannot read the allowance parameters of the reference run: %v", prm)
						}
						allowance := q.stake*base/100/1000000 + adj
						if rec["maxrelays"] != fmt.Sprint(allowance) {
							return "relay-allowance", desc + fmt.Sprintf("; allowance derived from the stake is %d", allowance)
						}
						d := balanceDelta(r, s)
						if d["A1"] != -q.stake-fee || d["module:application_staked_tokens_pool"] != q.stake {
							return "admission-funds", desc + " balances " + deltaStr(d)
						}
					}
					return "", ""
				}})
		}
	}
	// a staked application edits its stake: the chain limit holds for the edited record too
	for _, x := range []struct {
		name   string
		chains string
		n      int
		value  string
	}{{"max-chains", "0001+0002", 2, "2000000"}, {"too-many-chains", "0001+0002+0003", 3, "2000000"}, {"too-many-chains-and-more-stake", "0001+0002+0003", 3, "2500000"}} {
		x := x
		t := tx("app_stake", "P1", "value", x.value, "chains", x.chains)
		cases = append(cases, chainCase{Name: "edit/" + x.name, Class: "edit", Env: env, Want: []string{"balances", "apppool"},
			Ref: []BlockSpec{{}}, Subject: []BlockSpec{blk(t)},
			Oracle: func(r, s JobResult) (string, string) {
				before, after := obsRecords(r, "apps")["P1"], obsRecords(s, "apps")["P1"]
				desc := fmt.Sprintf("staked application P1 edits its stake to %s on %d chains (maximum %d): result code %d, record before %v, after %v", x.value, x.n, 2, lastTx(s).Code, before, after)
				if x.n > 2 {
					if lastTx(s).Code == 0 || fmt.Sprint(before) != fmt.Sprint(after) {
						return "edit-over-chain-limit", desc
					}
					return "", ""
				}
				if lastTx(s).Code != 0 || after["chains"] != x.chains {
					return "edit-within-limits-refused", desc
				}
				return "", ""
			}})
	}
	// transfers
	type tr struct {
		name   string
		t      TxSpec
		signer string
		target string
		ok     bool
	}
	for _, x := range []tr{
		{"to-new-key", tx("app_stake", "P1", "app", "NEW", "value", "0", "chains", ""), "P1", "NEW", true},
		{"to-funded-non-app-key", tx("app_stake", "P1", "app", "A2", "value", "0", "chains", ""), "P1", "A2", true},
		{"to-self", tx("app_stake", "P1", "app", "P1", "value", "0", "chains", ""), "P1", "P1", false},
		{"by-stranger", tx("app_stake", "A2", "app", "NEW", "value", "0", "chains", ""), "A2", "NEW", false},
		{"by-node-key", tx("app_stake", "N1", "app", "NEW", "value", "0", "chains", ""), "N1", "NEW", false},
		{"with-value", tx("app_stake", "P1", "app", "NEW", "value", "1000000", "chains", ""), "P1", "NEW", false},
		{"with-chains", tx("app_stake", "P1", "app", "NEW", "value", "0", "chains", "0002"), "P1", "NEW", false},
	} {
		x := x
		// application-set / parameter states before the transfer; in the last three the allowance formula no longer
		// yields what P1's record holds (governance moved BaseRelaysPerPOKT or StabilityAdjustment after P1 staked):
		// a pure key transfer still keeps the recorded allowance
		for _, st := range []struct {
			name string
			pre  []BlockSpec
		}{
			{"one-app", nil},
			{"full", []BlockSpec{blk(tx("app_stake", "P2", "value", "1000000"))}},
			{"base-relays-halved", []BlockSpec{blk(tx("gov_param", "G", "from", "G", "key", "application/BaseRelaysPerPOKT", "value", `"50"`))}},
			{"base-relays-tripled", []BlockSpec{blk(tx("gov_param", "G", "from", "G", "key", "application/BaseRelaysPerPOKT", "value", `"300"`))}},
			{"stability-adjusted", []BlockSpec{blk(tx("gov_param", "G", "from", "G", "key", "application/StabilityAdjustment", "value", `"7"`))}},
		} {
			pre := st.pre
			name := fmt.Sprintf("transfer/%s/%s", x.name, st.name)
			cases = append(cases, chainCase{Name: name, Class: "transfer", Env: env, Want: []string{"balances", "apppool"},
				Ref: append(append([]BlockSpec{}, pre...), BlockSpec{}), Subject: append(append([]BlockSpec{}, pre...), blk(x.t)),
				Oracle: func(r, s JobResult) (string, string) {
					before, after := obsRecords(r, "apps"), obsRecords(s, "apps")
					old := before["P1"]
					desc := fmt.Sprintf("application transfer %s signed by %s to %s: result code %d; applications before %v, after %v", x.name, x.signer, x.target, lastTx(s).Code, before, after)
					moved := after[x.target] != nil && before[x.target] == nil && x.target != "P1"
					if moved != x.ok {
						return "transfer-decision", desc
					}
					if moved {
						n := after[x.target]
						if _, still := after["P1"]; still {
							return "transfer-kept-old-record", desc
						}
						for _, f := range []string{"tokens", "maxrelays", "chains", "status", "jailed"} {
							if n[f] != old[f] {
								return "transfer-changed-" + f, desc
							}
						}
						d := balanceDelta(r, s)
						if d["module:application_staked_tokens_pool"] != 0 {
							return "transfer-changed-pool", desc + " " + deltaStr(d)
						}
					} else {
						if fmt.Sprint(after["P1"]) != fmt.Sprint(before["P1"]) {
							return "rejected-transfer-changed-app", desc
						}
					}
					return "", ""
				}})
		}
	}
	// transfer onto a key that already holds an application record in any state (here: P2 has begun unstaking):
	// must be refused; both records, the pool and every balance besides the fee stay as they are
	{
		env := env
		pre := []BlockSpec{blk(tx("app_stake", "P2", "value", "1000000")), blk(tx("app_unstake", "P2"))}
		t := tx("app_stake", "P1", "app", "P2", "value", "0", "chains", "")
		cases = append(cases, chainCase{Name: "transfer/onto-unstaking-application", Class: "transfer", Env: env, Want: []string{"balances", "apppool"},
			Ref: append(append([]BlockSpec{}, pre...), BlockSpec{}), Subject: append(append([]BlockSpec{}, pre...), blk(t)),
			Oracle: func(r, s JobResult) (string, string) {
				before, after := obsRecords(r, "apps"), obsRecords(s, "apps")
				if before["P2"] == nil || before["P2"]["status"] != "1" {
					return "", "" // P2 is not in the unstaking state in the reference run: nothing to check
				}
				desc := fmt.Sprintf("application transfer signed by P1 onto the key of P2, which is unstaking: result code %d; applications before %v, after %v", lastTx(s).Code, before, after)
				if lastTx(s).Code == 0 || fmt.Sprint(after["P1"]) != fmt.Sprint(before["P1"]) || fmt.Sprint(after["P2"]) != fmt.Sprint(before["P2"]) {
					return "transfer-onto-existing-application", desc
				}
				return "", ""
			}})
	}
	return cases
}

func init() {
	register(&Check{ID: "C36", QuickBud: 110 * time.Second, ThorBud: 20 * time.Minute,
		Run: func(c *ev.Ctx) {
			c.Rule = "every stored parameter (all modules, read from the running node) x value {same, changed (derived from its current value), wrong type, garbage} x signer {the ACL owner, the DAO owner, an unrelated funded account}, and DAO transfer/burn x amount {1, balance-1, balance, balance+1, negative} x the same signers: each delivered in a block of the real application next to a reference replica; a parameter changes only when the ACL owner of that key signed (and then exactly that key, to the requested value; ), no funds move besides the fee; DAO funds move only when the DAO owner signed, by exactly the amount, never more than the balance"
			ref := getPool().Exec(Job{Env: defaultEnv(), Blocks: []BlockSpec{{}}, Want: []string{"balances"}})
			if ref.Err != "" {
				c.HarnessError(ref.Err)
				return
			}
			runChainCases(c, "gov", c36Cases(ref))
			getPool().Close()
		},
	})
	register(&Check{ID: "C37", QuickBud: 110 * time.Second, ThorBud: 20 * time.Minute,
		Run: func(c *ev.Ctx) {
			c.Rule = "every sequence of 1..3 upgrade messages over {version upgrade with features, version upgrade without features, feature-only upgrade, feature-only re-schedule of an earlier feature, upgrade with duplicate feature names, upgrade signed by a stranger, malformed feature string}, each in its own block of the real application; afterwards one replica continues and one restarts from its databases: the stored feature list is sorted, duplicate-free and equals the shadow schedule (everything scheduled so far, later heights winning), the process activation table equals the schedule on both replicas, the stored upgrade and the derived codec heights are equal on both, and the following block gets the same app hash"
			runChainCases(c, "upgrade", c37Cases())
			getPool().Close()
		},
		Replay: caseReplayFn(func(spec, name string) *chainCase {
			for _, cs := range c37Cases() {
				if cs.Name == name {
					x := cs
					return &x
				}
			}
			return nil
		}),
	})
	register(&Check{ID: "C28", QuickBud: 110 * time.Second, ThorBud: 20 * time.Minute,
		Run: func(c *ev.Ctx) {
			c.Rule = "application stake requests {below minimum, minimum, more than balance-fee, exactly balance-fee, max chains, max+1 chains, odd amount} x application-set states {none, one, full (MaxApplications 2)} and ownership transfers {to a new key, to a funded non-application key, to itself, signed by a stranger, by a node key, with a value, with chains} x {one app, full}: each in a block of the real application next to a reference replica: admission == (stake >= minimum, chains <= maximum, funds cover stake after the fee, free slot); the relay allowance equals the amount derived from the stake; a transfer keeps stake, allowance, chains, removes the old record, leaves the pool unchanged and happens only when the current application signed; app pool invariant on every final state"
			runChainCases(c, "apps", c28Cases())
			getPool().Close()
		},
		Replay: caseReplayFn(func(spec, name string) *chainCase {
			for _, cs := range c28Cases() {
				if cs.Name == name {
					x := cs
					return &x
				}
			}
			return nil
		}),
	})
}
