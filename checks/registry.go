// Package checks holds one file per property (or family of properties).
package checks

import (
	"encoding/json"
	"time"

	"verif/internal/ev"
)

type Check struct {
	ID       string
	Run      func(c *ev.Ctx)
	Replay   func(raw json.RawMessage) (string, error) // re-executes one recorded case; returns description
	QuickBud time.Duration
	ThorBud  time.Duration
}

var Registry = map[string]*Check{}

func register(ch *Check) {
	if ch.QuickBud == 0 {
		ch.QuickBud = 90 * time.Second
	}
	if ch.ThorBud == 0 {
		ch.ThorBud = 25 * time.Minute
	}
	Registry[ch.ID] = ch
}
