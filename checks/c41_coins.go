package checks

import (
	"fmt"
	"math/big"
	"sort"
	"strings"
	"time"

	sdk "github.com/pokt-network/pocket-core/types"

	"verif/internal/ev"
)

var c41Max = new(big.Int).Sub(new(big.Int).Lsh(big.NewInt(1), 255), big.NewInt(1)) // 2^255-1

func c41Int(b *big.Int) sdk.BigInt { return sdk.NewIntFromBigInt(new(big.Int).Set(b)) }

func coinsStr(cs sdk.Coins) string {
	var p []string
	for _, c := range cs {
		p = append(p, c.Amount.String()+c.Denom)
	}
	return "{" + strings.Join(p, ",") + "}"
}

// c41Sets: every sorted coin set over the denoms with amounts from the alphabet (sorted, no duplicates; amounts >= 0, i.e. explicit zero entries occur in operands).
func c41Sets(denoms []string, amts []*big.Int) []sdk.Coins {
	var out []sdk.Coins
	var rec func(i int, cur sdk.Coins)
	rec = func(i int, cur sdk.Coins) {
		if i == len(denoms) {
			out = append(out, append(sdk.Coins{}, cur...))
			return
		}
		rec(i+1, cur)
		for _, a := range amts {
			rec(i+1, append(append(sdk.Coins{}, cur...), sdk.Coin{Denom: denoms[i], Amount: c41Int(a)}))
		}
	}
	rec(0, nil)
	return out
}

func coinsMap(cs sdk.Coins) map[string]*big.Int {
	m := map[string]*big.Int{}
	for _, c := range cs {
		if _, ok := m[c.Denom]; ok {
			m[c.Denom] = new(big.Int).Add(m[c.Denom], c.Amount.BigInt())
		} else {
			m[c.Denom] = c.Amount.BigInt()
		}
	}
	return m
}

// canonical: sorted, no zero, no duplicate
func canonicalErr(cs sdk.Coins, allowNeg bool) string {
	for i, c := range cs {
		if c.Amount.IsZero() {
			return "contains a zero coin"
		}
		if !allowNeg && c.Amount.IsNegative() {
			return "contains a negative coin"
		}
		if i > 0 && cs[i-1].Denom >= c.Denom {
			return "not strictly sorted by denom (duplicate or unsorted)"
		}
	}
	return ""
}

func mapEq(cs sdk.Coins, want map[string]*big.Int) bool {
	got := coinsMap(cs)
	n := 0
	for d, w := range want {
		if w.Sign() == 0 {
			continue
		}
		n++
		if g, ok := got[d]; !ok || g.Cmp(w) != 0 {
			return false
		}
	}
	return n == len(got)
}

func mapStr(m map[string]*big.Int) string {
	var ks []string
	for k := range m {
		ks = append(ks, k)
	}
	sort.Strings(ks)
	var p []string
	for _, k := range ks {
		p = append(p, m[k].String()+k)
	}
	return "{" + strings.Join(p, ",") + "}"
}

func c41Coins(c *ev.Ctx) {
	denoms := []string{"aaa", "bbb", "ccc"}
	amts := []*big.Int{big.NewInt(1), big.NewInt(2), big.NewInt(5), new(big.Int).Sub(c41Max, big.NewInt(1)), c41Max}
	if c.Tier == "quick" {
		amts = []*big.Int{big.NewInt(1), big.NewInt(2), new(big.Int).Sub(c41Max, big.NewInt(1)), c41Max}
	}
	// operands may carry explicit zero entries (constructible with Coins{...} literals); results must not
	amts = append([]*big.Int{big.NewInt(0)}, amts...)
	sets := c41Sets(denoms, amts)
	var n int64
	for _, a := range sets {
		for _, b := range sets {
			if c.Expired() {
				return
			}
			n++
			ca, cb := coinsStr(a), coinsStr(b)
			ma, mb := coinsMap(a), coinsMap(b)
			sum, diff := map[string]*big.Int{}, map[string]*big.Int{}
			overflow, neg := false, false
			for _, d := range denoms {
				x, y := ma[d], mb[d]
				if x == nil {
					x = new(big.Int)
				}
				if y == nil {
					y = new(big.Int)
				}
				sum[d] = new(big.Int).Add(x, y)
				diff[d] = new(big.Int).Sub(x, y)
				if sum[d].BitLen() > 255 {
					overflow = true
				}
				if diff[d].Sign() < 0 {
					neg = true
				}
			}
			// operands with explicit zero entries: the operations' results are checked (amounts, canonical form,
			// overflow / negative reporting); in-place effects on such (not IsValid) operands and the comparison
			// helpers are outside what the property states
			zeroOperand := false
			for _, x := range append(append(sdk.Coins{}, a...), b...) {
				if x.Amount.IsZero() {
					zeroOperand = true
				}
			}
			cp := func(x sdk.Coins) sdk.Coins { return append(sdk.Coins{}, x...) }
			xa, xb := cp(a), cp(b)
			// Add
			var res sdk.Coins
			p := safely(func() { res = xa.Add(xb) })
			switch {
			case overflow && p == nil:
				c.Report("coins/add/overflow-not-reported", fmt.Sprintf("%s + %s returned %s although a denomination exceeds 2^255-1", ca, cb, coinsStr(res)), []string{ca, cb})
			case !overflow && p != nil:
				c.Report("coins/add/panic", fmt.Sprintf("%s + %s panicked: %v", ca, cb, p), []string{ca, cb})
			case !overflow:
				if e := canonicalErr(res, false); e != "" {
					c.Report("coins/add/not-canonical", fmt.Sprintf("%s + %s = %s: %s", ca, cb, coinsStr(res), e), []string{ca, cb})
				} else if !mapEq(res, sum) {
					c.Report("coins/add/amounts", fmt.Sprintf("%s + %s = %s, map arithmetic gives %s", ca, cb, coinsStr(res), mapStr(sum)), []string{ca, cb})
				} else if !res.IsValid() && len(res) > 0 {
					c.Report("coins/add/invalid", fmt.Sprintf("%s + %s = %s is not IsValid()", ca, cb, coinsStr(res)), []string{ca, cb})
				}
			}
			if !zeroOperand && (coinsStr(xa) != ca || coinsStr(xb) != cb) {
				c.Report("coins/add/mutates-input", fmt.Sprintf("%s + %s changed its operands to %s, %s", ca, cb, coinsStr(xa), coinsStr(xb)), []string{ca, cb})
			}
			// SafeSub / Sub
			xa, xb = cp(a), cp(b)
			var d2 sdk.Coins
			var hasNeg bool
			p = safely(func() { d2, hasNeg = xa.SafeSub(xb) })
			if p != nil {
				c.Report("coins/safesub/panic", fmt.Sprintf("%s - %s panicked: %v", ca, cb, p), []string{ca, cb})
			} else {
				if hasNeg != neg {
					c.Report("coins/safesub/negative-flag", fmt.Sprintf("%s - %s = %s reports negative=%v, map arithmetic says %v", ca, cb, coinsStr(d2), hasNeg, neg), []string{ca, cb})
				}
				if e := canonicalErr(d2, true); e != "" {
					c.Report("coins/safesub/not-canonical", fmt.Sprintf("%s - %s = %s: %s", ca, cb, coinsStr(d2), e), []string{ca, cb})
				} else if !mapEq(d2, diff) {
					c.Report("coins/safesub/amounts", fmt.Sprintf("%s - %s = %s, map arithmetic gives %s", ca, cb, coinsStr(d2), mapStr(diff)), []string{ca, cb})
				}
			}
			xa, xb = cp(a), cp(b)
			var d3 sdk.Coins
			p = safely(func() { d3 = xa.Sub(xb) })
			if neg && p == nil {
				c.Report("coins/sub/negative-produced", fmt.Sprintf("%s - %s returned %s instead of reporting a negative result", ca, cb, coinsStr(d3)), []string{ca, cb})
			} else if !neg && p != nil {
				c.Report("coins/sub/panic", fmt.Sprintf("%s - %s panicked: %v", ca, cb, p), []string{ca, cb})
			} else if !neg && (canonicalErr(d3, false) != "" || !mapEq(d3, diff)) {
				c.Report("coins/sub/amounts", fmt.Sprintf("%s - %s = %s, map arithmetic gives %s", ca, cb, coinsStr(d3), mapStr(diff)), []string{ca, cb})
			}
			if !zeroOperand && (coinsStr(xa) != ca || coinsStr(xb) != cb) {
				c.Report("coins/sub/mutates-input", fmt.Sprintf("%s - %s changed its operands to %s, %s", ca, cb, coinsStr(xa), coinsStr(xb)), []string{ca, cb})
			}
			if zeroOperand {
				c.Distinct("coins|" + ca + "|" + cb)
				continue
			}
			// comparisons with an unambiguous documented meaning
			allGTE := true
			for d, y := range mb {
				x := ma[d]
				if x == nil {
					x = new(big.Int)
				}
				if x.Cmp(y) < 0 {
					allGTE = false
				}
			}
			if got := a.IsAllGTE(b); got != allGTE {
				c.Report("coins/isallgte", fmt.Sprintf("%s.IsAllGTE(%s)=%v, per-denomination comparison gives %v", ca, cb, got, allGTE), []string{ca, cb})
			}
			// IsEqual panics for equally long sets with different denominations (a documented-by-test quirk,
			// not part of the arithmetic the property speaks about): compared only where it returns
			var eq bool
			if p := safely(func() { eq = a.IsEqual(b) }); p != nil {
				c.Outcome("isequal-panics-on-different-denoms")
			} else if eq != (ca == cb) {
				c.Report("coins/isequal", fmt.Sprintf("%s.IsEqual(%s)=%v", ca, cb, eq), []string{ca, cb})
			}
			for _, d := range denoms {
				x := ma[d]
				if x == nil {
					x = new(big.Int)
				}
				if got := a.AmountOf(d); got.BigInt().Cmp(x) != 0 {
					c.Report("coins/amountof", fmt.Sprintf("%s.AmountOf(%s)=%s, expected %s", ca, d, got, x), []string{ca, d})
				}
			}
			if len(a) > 0 && len(b) > 0 {
				c.Distinct("coins|" + ca + "|" + cb)
			}
		}
	}
	c.AddEvals(n * 4)
	c.OutcomeN("coin-set-pairs", n)
	c.Sample(map[string]string{"a": coinsStr(sets[len(sets)/3]), "b": coinsStr(sets[len(sets)/2]), "ops": "Add, SafeSub, Sub, IsAllGTE, IsEqual, AmountOf"})
}

func c41Ints(c *ev.Ctx) {
	two := big.NewInt(2)
	var vals []*big.Int
	for _, e := range []uint{0, 1, 62, 63, 64, 127, 128, 253, 254} {
		p := new(big.Int).Lsh(big.NewInt(1), e)
		vals = append(vals, p, new(big.Int).Sub(p, big.NewInt(1)), new(big.Int).Add(p, big.NewInt(1)))
	}
	vals = append(vals, big.NewInt(0), big.NewInt(3), big.NewInt(10), c41Max, new(big.Int).Sub(c41Max, big.NewInt(1)), new(big.Int).Quo(c41Max, two))
	n0 := len(vals)
	for i := 0; i < n0; i++ {
		vals = append(vals, new(big.Int).Neg(vals[i]))
	}
	fits := func(x *big.Int) bool { return x.BitLen() <= 255 }
	var n int64
	type binop struct {
		name string
		impl func(a, b sdk.BigInt) sdk.BigInt
		ref  func(a, b *big.Int) *big.Int // nil result = must fail
	}
	ops := []binop{
		{"add", func(a, b sdk.BigInt) sdk.BigInt { return a.Add(b) }, func(a, b *big.Int) *big.Int { return new(big.Int).Add(a, b) }},
		{"sub", func(a, b sdk.BigInt) sdk.BigInt { return a.Sub(b) }, func(a, b *big.Int) *big.Int { return new(big.Int).Sub(a, b) }},
		{"mul", func(a, b sdk.BigInt) sdk.BigInt { return a.Mul(b) }, func(a, b *big.Int) *big.Int { return new(big.Int).Mul(a, b) }},
		{"quo", func(a, b sdk.BigInt) sdk.BigInt { return a.Quo(b) }, func(a, b *big.Int) *big.Int {
			if b.Sign() == 0 {
				return nil
			}
			return new(big.Int).Quo(a, b)
		}},
		{"mod", func(a, b sdk.BigInt) sdk.BigInt { return a.Mod(b) }, func(a, b *big.Int) *big.Int {
			if b.Sign() == 0 {
				return nil
			}
			return new(big.Int).Mod(a, b)
		}},
	}
	for _, a := range vals {
		for _, b := range vals {
			ia, ib := c41Int(a), c41Int(b)
			for _, op := range ops {
				n++
				want := op.ref(a, b)
				var got sdk.BigInt
				p := safely(func() { got = op.impl(ia, ib) })
				mustFail := want == nil || !fits(want)
				switch {
				case mustFail && p == nil:
					c.Report("int/"+op.name+"/overflow-not-reported", fmt.Sprintf("Int %s(%s,%s) returned %s; exact result %v does not fit 255 bits", op.name, a, b, got, want), []string{op.name, a.String(), b.String()})
				case !mustFail && p != nil:
					c.Report("int/"+op.name+"/fails-without-overflow", fmt.Sprintf("Int %s(%s,%s) failed (%v) although the exact result %s fits", op.name, a, b, p, want), []string{op.name, a.String(), b.String()})
				case !mustFail && got.BigInt().Cmp(want) != 0:
					c.Report("int/"+op.name+"/value", fmt.Sprintf("Int %s(%s,%s)=%s, exact %s", op.name, a, b, got, want), []string{op.name, a.String(), b.String()})
				}
				if ia.BigInt().Cmp(a) != 0 || ib.BigInt().Cmp(b) != 0 {
					c.Report("int/"+op.name+"/mutates-operand", fmt.Sprintf("Int %s(%s,%s) changed an operand", op.name, a, b), nil)
				}
			}
			if ia.GT(ib) != (a.Cmp(b) > 0) || ia.LT(ib) != (a.Cmp(b) < 0) || ia.Equal(ib) != (a.Cmp(b) == 0) || ia.GTE(ib) != (a.Cmp(b) >= 0) || ia.LTE(ib) != (a.Cmp(b) <= 0) {
				c.Report("int/compare", fmt.Sprintf("Int comparison of %s and %s wrong", a, b), nil)
			}
			c.Distinct("int|" + a.String() + "|" + b.String())
		}
		if got := c41Int(a).Neg(); got.BigInt().Cmp(new(big.Int).Neg(a)) != 0 {
			c.Report("int/neg", fmt.Sprintf("Neg(%s)=%s", a, got), nil)
		}
	}
	c.AddEvals(n)
	c.OutcomeN("int-op-evaluations", n)
}

var c41Prec = new(big.Int).Exp(big.NewInt(10), big.NewInt(18), nil)

func decFromRaw(r *big.Int) sdk.BigDec { return sdk.NewDecFromBigIntWithPrec(new(big.Int).Set(r), 18) }

func c41Decs(c *ev.Ctx) {
	// raw values (units of 10^-18)
	one := new(big.Int).Set(c41Prec)
	raw := []*big.Int{big.NewInt(0), big.NewInt(1), big.NewInt(2), big.NewInt(5), new(big.Int).Quo(one, big.NewInt(2)), new(big.Int).Quo(one, big.NewInt(3)), one,
		new(big.Int).Add(one, new(big.Int).Quo(one, big.NewInt(2))), new(big.Int).Mul(one, big.NewInt(2)), new(big.Int).Add(new(big.Int).Mul(one, big.NewInt(2)), new(big.Int).Quo(one, big.NewInt(2))),
		new(big.Int).Mul(one, big.NewInt(3)), new(big.Int).Mul(one, big.NewInt(7)), new(big.Int).Add(one, big.NewInt(1)), new(big.Int).Sub(one, big.NewInt(1)),
		new(big.Int).Mul(one, new(big.Int).Lsh(big.NewInt(1), 100)), new(big.Int).Sub(new(big.Int).Lsh(big.NewInt(1), 315), big.NewInt(1)), new(big.Int).Lsh(big.NewInt(1), 314),
		big.NewInt(1500000000000000001), big.NewInt(500000000000000001), big.NewInt(499999999999999999), big.NewInt(15000000001)}
	n0 := len(raw)
	for i := 1; i < n0; i++ {
		raw = append(raw, new(big.Int).Neg(raw[i]))
	}
	fits := func(x *big.Int) bool { return x.BitLen() <= 315 }
	half := big.NewRat(1, 2)
	// rounding references on an exact rational number of 10^-18 units
	floorRat := func(r *big.Rat) *big.Int {
		q := new(big.Int)
		m := new(big.Int)
		q.DivMod(r.Num(), r.Denom(), m) // Euclidean: floor for positive denominators
		return q
	}
	bankers := func(r *big.Rat) *big.Int {
		lo := floorRat(r)
		frac := new(big.Rat).Sub(r, new(big.Rat).SetInt(lo))
		switch frac.Cmp(half) {
		case -1:
			return lo
		case 1:
			return new(big.Int).Add(lo, big.NewInt(1))
		}
		if lo.Bit(0) == 0 {
			return lo
		}
		return new(big.Int).Add(lo, big.NewInt(1))
	}
	truncRat := func(r *big.Rat) *big.Int { return new(big.Int).Quo(r.Num(), r.Denom()) }
	ceilRat := func(r *big.Rat) *big.Int {
		lo := floorRat(r)
		if new(big.Rat).SetInt(lo).Cmp(r) == 0 {
			return lo
		}
		return new(big.Int).Add(lo, big.NewInt(1))
	}
	var n int64
	for _, a := range raw {
		for _, b := range raw {
			da, db := decFromRaw(a), decFromRaw(b)
			type tcase struct {
				name string
				impl func() sdk.BigDec
				want []*big.Int // acceptable raw results; nil = must fail
			}
			prodExact := new(big.Rat).SetFrac(new(big.Int).Mul(a, b), c41Prec) // in raw units
			var quoExact *big.Rat
			if b.Sign() != 0 {
				quoExact = new(big.Rat).SetFrac(new(big.Int).Mul(a, c41Prec), b)
			}
			cases := []tcase{
				{"add", func() sdk.BigDec { return da.Add(db) }, []*big.Int{new(big.Int).Add(a, b)}},
				{"sub", func() sdk.BigDec { return da.Sub(db) }, []*big.Int{new(big.Int).Sub(a, b)}},
				{"mul", func() sdk.BigDec { return da.Mul(db) }, []*big.Int{bankers(prodExact)}},
				{"multruncate", func() sdk.BigDec { return da.MulTruncate(db) }, []*big.Int{truncRat(prodExact)}},
			}
			if quoExact != nil {
				// Quo works on a 36-digit truncated quotient: a result is accepted if it is the correctly
				// rounded value of the exact quotient or of the exact quotient truncated to 36 digits
				q36 := new(big.Rat).SetFrac(new(big.Int).Quo(new(big.Int).Mul(new(big.Int).Mul(a, c41Prec), c41Prec), b), c41Prec)
				cases = append(cases,
					tcase{"quo", func() sdk.BigDec { return da.Quo(db) }, []*big.Int{bankers(quoExact), bankers(q36)}},
					tcase{"quotruncate", func() sdk.BigDec { return da.QuoTruncate(db) }, []*big.Int{truncRat(quoExact)}},
				)
				if quoExact.Sign() >= 0 {
					cases = append(cases, tcase{"quoroundup", func() sdk.BigDec { return da.QuoRoundUp(db) }, []*big.Int{ceilRat(quoExact), ceilRat(q36)}})
				} else {
					cases = append(cases, tcase{"quoroundup", func() sdk.BigDec { return da.QuoRoundUp(db) }, []*big.Int{truncRat(quoExact)}})
				}
			}
			for _, tc := range cases {
				n++
				mustFail := true
				for _, w := range tc.want {
					if fits(w) {
						mustFail = false
					}
				}
				var got sdk.BigDec
				p := safely(func() { got = tc.impl() })
				switch {
				case mustFail && p == nil:
					c.Report("dec/"+tc.name+"/overflow-not-reported", fmt.Sprintf("Dec %s(%s,%s) returned %s; the result does not fit 315 bits", tc.name, da, db, got), []string{tc.name, a.String(), b.String()})
				case !mustFail && p != nil:
					c.Report("dec/"+tc.name+"/fails-without-overflow", fmt.Sprintf("Dec %s(%s,%s) failed: %v", tc.name, da, db, p), []string{tc.name, a.String(), b.String()})
				case !mustFail:
					ok := false
					for _, w := range tc.want {
						if got.BigInt().Cmp(w) == 0 {
							ok = true
						}
					}
					if !ok {
						c.Report("dec/"+tc.name+"/value", fmt.Sprintf("Dec %s(%s,%s)=%s, documented rounding of the exact result gives %s (raw units)", tc.name, da, db, got, tc.want[0]), []string{tc.name, a.String(), b.String()})
					}
				}
				if da.BigInt().Cmp(a) != 0 || db.BigInt().Cmp(b) != 0 {
					c.Report("dec/"+tc.name+"/mutates-operand", fmt.Sprintf("Dec %s(%s,%s) changed an operand", tc.name, a, b), nil)
				}
			}
			c.Distinct("dec|" + a.String() + "|" + b.String())
		}
		// unary roundings
		da := decFromRaw(a)
		r := new(big.Rat).SetFrac(a, c41Prec)
		check := func(name string, want *big.Int, f func() *big.Int) {
			n++
			var got *big.Int
			p := safely(func() { got = f() })
			fail := want.BitLen() > 255
			if fail != (p != nil) {
				c.Report("dec/"+name+"/overflow", fmt.Sprintf("Dec(%s).%s: panic=%v, expected failure=%v", da, name, p, fail), nil)
			} else if !fail && got.Cmp(want) != 0 {
				c.Report("dec/"+name+"/value", fmt.Sprintf("Dec(%s).%s=%s, expected %s", da, name, got, want), []string{name, a.String()})
			}
		}
		check("truncateint", truncRat(r), func() *big.Int { return da.TruncateInt().BigInt() })
		check("roundint", bankers(r), func() *big.Int { return da.RoundInt().BigInt() })
		n++
		if fits(new(big.Int).Mul(ceilRat(r), c41Prec)) {
			var got sdk.BigDec
			if p := safely(func() { got = da.Ceil() }); p != nil || got.BigInt().Cmp(new(big.Int).Mul(ceilRat(r), c41Prec)) != 0 {
				c.Report("dec/ceil/value", fmt.Sprintf("Dec(%s).Ceil()=%s panic=%v, expected %s", da, got, p, ceilRat(r)), []string{"ceil", a.String()})
			}
		}
	}
	c.AddEvals(n)
	c.OutcomeN("dec-op-evaluations", n)
}

func init() {
	register(&Check{ID: "C41", QuickBud: 100 * time.Second, ThorBud: 20 * time.Minute,
		Run: func(c *ev.Ctx) {
			c.Rule = "all pairs of valid coin sets over 3 denominations x amount alphabet {1,2,(5),2^255-2,2^255-1}: Add/SafeSub/Sub/IsAllGTE/IsEqual/AmountOf vs per-denomination big.Int map arithmetic (canonical form, overflow must fail, negative must be reported, operands unchanged); all pairs over a boundary alphabet of 66 integers (+-2^k, +-2^k+-1, max) for Int Add/Sub/Mul/Quo/Mod/compare (exact or fail iff the exact result exceeds 255 bits); all pairs over 41 decimals for Dec Add/Sub/Mul/MulTruncate/Quo/QuoTruncate/QuoRoundUp and TruncateInt/RoundInt/Ceil against exact big.Rat values with the documented rounding. Non-trivial = pair of non-empty operands"
			c.Assume("Dec.Quo/QuoRoundUp are documented to work on a quotient first truncated to 36 decimals; both the correctly rounded exact quotient and the correctly rounded 36-digit quotient are accepted")
			c41Coins(c)
			c41Ints(c)
			c41Decs(c)
			c.BoundDone = "all pairs over the stated alphabets"
		},
	})
}
