package checks

import (
	"encoding/json"
	"fmt"
	"sort"
	"sync"

	"verif/internal/ev"
)

// Shard evaluators: an "invariant" that enumerates a finite input domain against the real keepers of a
// replica (each evaluation on a discarded cache branch of the state). The domain is partitioned into
// shards by Job.Args so that the worker pool runs them in parallel; the first shard is executed twice and
// must give identical results.

type evalReplay struct {
	Spec string `json:"spec"`
	Job  Job    `json:"job"`
}

// evalAcc is used inside evaluators: first failing input per signature + counters.
type evalAcc struct {
	res      *JobResult
	seen     map[string]int
	evals    int64
	outcomes map[string]int64
}

func newEvalAcc(res *JobResult) *evalAcc {
	return &evalAcc{res: res, seen: map[string]int{}, outcomes: map[string]int64{}}
}
func (a *evalAcc) viol(sig, what string) {
	a.seen[sig]++
	if a.seen[sig] == 1 {
		a.res.viol(sig, what)
	}
}
func (a *evalAcc) outcome(k string) { a.outcomes[k]++ }
func (a *evalAcc) finish() {
	a.res.Obs["evals"] = a.evals
	a.res.Obs["outcomes"] = a.outcomes
	a.res.Obs["viol_counts"] = a.seen
}

func runEvalShards(c *ev.Ctx, spec string, env EnvCfg, blocks []BlockSpec, want string, shards []map[string]string) {
	p := getPool()
	// (evaluator shards run thousands of evaluations in one job: their deadline is that of a long job, not of a block history)
	mk := func(a map[string]string) Job {
		return Job{Env: env, Blocks: blocks, Want: []string{want}, Args: a, DeadlineSec: 900}
	}
	if !chainSelfCheck(c, mk(shards[0])) {
		return
	}
	work := make(chan map[string]string, len(shards))
	var wg sync.WaitGroup
	var mu sync.Mutex
	complete := true
	done := 0
	for w := 0; w < p.n; w++ {
		wg.Add(1)
		go func() {
			defer wg.Done()
			for a := range work {
				if c.Expired() {
					mu.Lock()
					complete = false
					mu.Unlock()
					continue
				}
				job := mk(a)
				r := p.Exec(job)
				if r.Err != "" {
					c.HarnessError(fmt.Sprintf("%s shard %v: %s", spec, a, r.Err))
					continue
				}
				for _, v := range r.Viols {
					c.Report(spec+"/"+v.Sig, v.What, evalReplay{spec, job})
				}
				mu.Lock()
				done++
				if n, ok := r.Obs["evals"].(float64); ok {
					c.AddEvals(int64(n))
				}
				if m, ok := r.Obs["outcomes"].(map[string]interface{}); ok {
					var ks []string
					for k := range m {
						ks = append(ks, k)
					}
					sort.Strings(ks)
					for _, k := range ks {
						if f, ok := m[k].(float64); ok {
							c.OutcomeN(spec+":"+k, int64(f))
						}
					}
				}
				mu.Unlock()
				c.Distinct(spec + "|" + fmt.Sprint(a))
			}
		}()
	}
	for _, a := range shards {
		work <- a
	}
	close(work)
	wg.Wait()
	c.AddTraces(int64(done))
	if !complete {
		c.Cap(spec + " stopped by the time budget")
	}
	c.BoundDone += fmt.Sprintf("%s: %d/%d input shards evaluated on the real keepers, complete=%v; ", spec, done, len(shards), complete)
}

func evalReplayFn(raw json.RawMessage) (string, error) {
	var r evalReplay
	if err := json.Unmarshal(raw, &r); err != nil {
		return "", err
	}
	res := runJob(r.Job)
	desc := fmt.Sprintf("%s shard %v", r.Spec, r.Job.Args)
	if res.Err != "" {
		return desc, fmt.Errorf("harness error: %s", res.Err)
	}
	if len(res.Viols) > 0 {
		return desc, fmt.Errorf("%s: %s", res.Viols[0].Sig, res.Viols[0].What)
	}
	return desc, nil
}

// evalOrChainReplayFn: checks that have both an input-shard layer and a chain-history layer.
func evalOrChainReplayFn(raw json.RawMessage) (string, error) {
	var probe map[string]json.RawMessage
	if err := json.Unmarshal(raw, &probe); err != nil {
		return "", err
	}
	if _, ok := probe["job"]; ok {
		return evalReplayFn(raw)
	}
	return chainReplayFn(raw)
}
