package checks

import (
	"encoding/hex"
	"fmt"
	"sort"
	"time"

	authTypes "github.com/pokt-network/pocket-core/x/auth/types"

	"verif/internal/ev"
)

func deltaStr(d map[string]int64) string {
	var ks []string
	for k := range d {
		ks = append(ks, k)
	}
	sort.Strings(ks)
	s := "{"
	for i, k := range ks {
		if i > 0 {
			s += " "
		}
		s += fmt.Sprintf("%s:%+d", k, d[k])
	}
	return s + "}"
}

func deltaEq(a, b map[string]int64) bool {
	if len(a) != len(b) {
		return false
	}
	for k, v := range a {
		if b[k] != v {
			return false
		}
	}
	return true
}

func requiredFee(t TxSpec) int64 {
	m, err := buildMsg(t)
	if err != nil {
		panic(err)
	}
	return authTypes.DefaultFeeMultiplier.GetFee(m).Int64()
}

func roleKey(to string) string {
	if len(to) > 4 && to[:4] == "hex:" {
		return "addr:" + to[4:]
	}
	return to
}

// recipients whose address is not 20 bytes long (the message check only refuses an empty address): an existing
// account's address with one more byte, the rich sender's address with one more byte, an existing address cut to 19
func c18OddRecipients() []string {
	return []string{"hex:" + hex.EncodeToString(caddr("A2")) + "aa", "hex:" + hex.EncodeToString(caddr("A1")) + "01", "hex:" + hex.EncodeToString(caddr("A2")[:19])}
}

func c18Cases() []chainCase {
	env := defaultEnv()
	var cases []chainCase
	type pre struct {
		name   string
		blocks []BlockSpec
	}
	pres := []pre{{"fresh", nil}, {"after-a-send", []BlockSpec{blk(tx("send", "A1", "to", "A3", "amount", "50000"))}}, {"after-receiving-into-new-account", []BlockSpec{blk(tx("send", "A1", "to", "NEW", "amount", "30000"))}},
		// the new account holds exactly one fee: paying the fee empties it before the message runs
		{"new-account-holds-exactly-the-fee", []BlockSpec{blk(tx("send", "A1", "to", "NEW", "amount", "10000"))}}}
	senders := []string{"A1", "A3", "NEW"}
	recips := []string{"A2", "NEW", "SELF", "module:staked_tokens_pool", "X"}
	// amounts relative to the sender's balance B and the fee F
	amts := []string{"1", "B-F-1", "B-F", "B-F+1", "B", "B+1", "F"}
	for pi, p := range pres {
		for _, s := range senders {
			rcs := recips
			if pi == 0 {
				rcs = append(append([]string{}, recips...), c18OddRecipients()...)
			}
			for _, rc := range rcs {
				for _, am := range amts {
					p, s, rc, am := p, s, rc, am
					to := rc
					if rc == "SELF" {
						to = s
					}
					name := fmt.Sprintf("%s/%s->%s/%s", p.name, s, rc, am)
					cases = append(cases, chainCase{Name: name, Class: "send", Env: env, Want: []string{"balances", "supply"},
						Ref: append(append([]BlockSpec{}, p.blocks...), BlockSpec{}),
						// the concrete amount is resolved by the oracle builder below (needs the reference balance): two-stage
						Subject: append(append([]BlockSpec{}, p.blocks...), blk(tx("send", s, "to", to, "amount", "SYMBOLIC:"+am))),
					})
				}
			}
		}
	}
	return cases
}

// c18Resolve turns symbolic amounts into concrete ones using the known genesis balances and history.
func c18Resolve(cs *chainCase) {
	const fee = 10000
	bal := map[string]int64{"A1": balStd, "A3": balSmall, "NEW": 0}
	for _, b := range cs.Ref {
		for _, t := range b.Txs {
			var a int64
			fmt.Sscan(t.Args["amount"], &a)
			bal[t.Signer] -= a + fee
			bal[t.Args["to"]] += a
		}
	}
	last := &cs.Subject[len(cs.Subject)-1].Txs[0]
	sender := last.Signer
	B := bal[sender]
	var amt int64
	switch last.Args["amount"][len("SYMBOLIC:"):] {
	case "1":
		amt = 1
	case "B-F-1":
		amt = B - fee - 1
	case "B-F":
		amt = B - fee
	case "B-F+1":
		amt = B - fee + 1
	case "B":
		amt = B
	case "B+1":
		amt = B + 1
	case "F":
		amt = fee
	}
	args := map[string]string{}
	for k, v := range last.Args {
		args[k] = v
	}
	args["amount"] = fmt.Sprint(amt)
	last.Args = args
	to := args["to"]
	cs.Oracle = func(ref, sub JobResult) (string, string) {
		d := balanceDelta(ref, sub)
		tr := lastTx(sub)
		want := map[string]int64{}
		okExpected := false
		switch {
		case amt <= 0:
			// rejected by ValidateBasic before authentication: nothing moves
		case B < fee:
			// cannot pay the fee: rejected during authentication
		case B >= fee+amt:
			okExpected = true
			want["module:fee_collector"] = fee
			if to == sender {
				want[sender] = -fee
			} else {
				want[sender] = -fee - amt
				want[roleKey(to)] = amt
			}
		default:
			want[sender] = -fee
			want["module:fee_collector"] = fee
		}
		if !deltaEq(d, want) {
			return "balances", fmt.Sprintf("send of %d from %s (balance %d, fee %d) to %s: balances changed by %s, expected %s (result code %d)", amt, sender, B, fee, to, deltaStr(d), deltaStr(want), tr.Code)
		}
		if okExpected != (tr.Code == 0) {
			return "result-code", fmt.Sprintf("send of %d from %s (balance %d, fee %d) to %s returned code %d, success expected=%v", amt, sender, B, fee, to, tr.Code, okExpected)
		}
		if len(want) == 0 && lastHash(ref) != lastHash(sub) {
			return "state-changed-by-rejected-send", fmt.Sprintf("send of %d from %s (balance %d) was rejected (code %d) without moving coins but the app hash differs from a block without it", amt, sender, B, tr.Code)
		}
		return "", ""
	}
}

func c18All() []chainCase {
	cs := c18Cases()
	var out []chainCase
	for i := range cs {
		c := cs[i]
		// copy the subject block so that resolving one case does not alias another
		sub := append([]BlockSpec{}, c.Subject...)
		lastB := sub[len(sub)-1]
		lastB.Txs = append([]TxSpec{}, lastB.Txs...)
		sub[len(sub)-1] = lastB
		c.Subject = sub
		c18Resolve(&c)
		if c.Subject[len(c.Subject)-1].Txs[0].Args["amount"] == "0" || c.Subject[len(c.Subject)-1].Txs[0].Args["amount"][0] == '-' {
			// non-positive amounts cannot be expressed by the signed message builder beyond ValidateBasic; keep them (they must be rejected)
		}
		out = append(out, c)
	}
	return out
}

func init() {
	register(&Check{ID: "C18", QuickBud: 110 * time.Second, ThorBud: 20 * time.Minute,
		Run: func(c *ev.Ctx) {
			c.Rule = "every send over 4 pre-states x 3 senders (rich, exactly fee+1, freshly created/non-existent/holding exactly the fee) x 5 recipients (existing, new, self, module account, never-seen; from the fresh state also addresses of 21 and 19 bytes that extend or truncate an existing account's address) x 7 amounts (1, balance-fee-1, balance-fee, balance-fee+1, balance, balance+1, fee) executed in a block of the real application and compared with a reference replica whose last block is empty: the balance changes of ALL accounts must be exactly {sender -amount-fee, recipient +amount, fee collector +fee} on success, {sender -fee, fee collector +fee} when the amount cannot be covered, and nothing (identical app hash) when the transaction is rejected before or during authentication; supply invariant and canonical, non-negative balances on every final state"
			runChainCases(c, "transfer", c18All())
			getPool().Close()
		},
		Replay: caseReplayFn(func(spec, name string) *chainCase {
			for _, cs := range c18All() {
				if cs.Name == name {
					x := cs
					return &x
				}
			}
			return nil
		}),
	})
}
