package checks

import (
	"encoding/hex"
	"fmt"
	"time"

	sdk "github.com/pokt-network/pocket-core/types"
	pc "github.com/pokt-network/pocket-core/x/pocketcore/types"

	"verif/internal/ev"
)

// relay mutations: every one alters exactly one authorization-relevant field of a valid relay
var c35Mutations = []struct{ name, class string }{
	{"aat-sig-flip", "token-signature"}, {"aat-sig-empty", "token-signature"}, {"aat-signed-by-stranger", "token-signature"},
	{"aat-version", "token-version"}, {"aat-no-version", "token-version"},
	{"aat-client-swapped", "token-client-key"}, {"aat-app-swapped", "token-app-key"}, {"aat-app-key-uppercase", "token-app-key"},
	{"proof-sig-flip", "client-signature"}, {"proof-sig-empty", "client-signature"}, {"proof-signed-by-stranger", "client-signature"}, {"proof-signed-by-app", "client-signature"},
	{"request-hash-other-payload", "request-hash"}, {"request-hash-garbage", "request-hash"}, {"payload-changed-after-signing", "request-hash"},
	{"servicer-changed-after-signing", "servicer-key"}, {"chain-changed-after-signing", "chain"}, {"session-changed-after-signing", "session-height"},
	{"entropy-changed-after-signing", "entropy"}, {"negative-entropy", "entropy"},
}

func evidenceCount(app, chain string, session int64) int64 {
	node := pc.GetPocketNode()
	e, err := pc.GetEvidence(pc.SessionHeader{ApplicationPubKey: rawPub(app), Chain: chain, SessionBlockHeight: session}, pc.RelayEvidence, sdk.ZeroInt(), node.EvidenceStore)
	if err != nil {
		return 0
	}
	return e.NumOfProofs
}

func init() {
	chainInvariants["c35:relays"] = func(r *replica, res *JobResult) {
		acc := newEvalAcc(res)
		defer acc.finish()
		_, nk, apk, _, pk := r.app.VerifKeepers()
		ctx := r.ctxNow()
		bps := int64(r.env.BlocksPerSession)
		cur := r.sessionHeightFor("cur", r.height)
		// reference: is a well-formed relay for (app, chain, session s) to this node (N1) authorized in this state?
		authorized := func(app, chain string, s int64) (bool, string) {
			if chain != "0001" && chain != "0002" {
				return false, "chain not hosted by this node"
			}
			latest := pk.GetLatestSessionBlockHeight(ctx)
			tol := pc.GlobalPocketConfig.ClientSessionSyncAllowance * bps
			if s <= 0 || s > latest || s < latest-tol {
				return false, "session outside tolerance"
			}
			if (s-1)%bps != 0 {
				return false, "the height is not the first block of a session"
			}
			sctx, err := ctx.PrevCtx(s)
			if err != nil {
				return false, "no state at session height"
			}
			// an application is "staked" while its record (staked or unstaking, tokens locked) exists
			var chains []string
			found := false
			for _, a := range apk.GetAllApplications(sctx) {
				if a.Address.Equals(caddr(app)) {
					found, chains = true, a.Chains
				}
			}
			if !found {
				return false, "application has no stake at session start"
			}
			hasChain := false
			for _, c := range chains {
				if c == chain {
					hasChain = true
				}
			}
			if !hasChain {
				return false, "application not staked for the chain"
			}
			endH := s + bps - 1
			ectx := ctx
			if r.height > endH {
				ectx, _ = ctx.PrevCtx(endH)
			}
			// session membership: the session the protocol defines for this header (generated without any cache;
			// node selection itself is the subject of C33)
			bh, herr := sctx.BlockHash(pk.Codec(), sctx.BlockHeight())
			if herr != nil {
				return false, "no block hash for the session height"
			}
			hdr := pc.SessionHeader{ApplicationPubKey: rawPub(app), Chain: chain, SessionBlockHeight: s}
			sess, serr := pc.NewSession(sctx, ectx, nk, hdr, hex.EncodeToString(bh), int(pk.SessionNodeCount(sctx)))
			if serr != nil {
				return false, "no session can be generated (" + serr.Error() + ")"
			}
			if !sess.SessionNodes.Contains(caddr("N1")) {
				return false, "servicer not in the session"
			}
			return true, ""
		}
		entropy := int64(1000)
		try := func(desc string, args map[string]string, expect bool, why string) {
			entropy++
			a := map[string]string{"entropy": fmt.Sprint(entropy)}
			for k, v := range args {
				a[k] = v
			}
			rl := r.relayFromArgs(a)
			before := evidenceCount("P1", rl.Proof.Blockchain, rl.Proof.SessionBlockHeight)
			beforeDefault := evidenceCount("P1", "0001", cur)
			resp, err := pk.HandleRelay(ctx, rl)
			after := evidenceCount("P1", rl.Proof.Blockchain, rl.Proof.SessionBlockHeight)
			afterDefault := evidenceCount("P1", "0001", cur)
			acc.evals++
			state := fmt.Sprintf("height %d (session %d)", r.height, cur)
			if expect {
				if err != nil {
					acc.viol("relay/valid-relay-rejected/"+args["class"], fmt.Sprintf("%s at %s: rejected with %v", desc, state, err))
					return
				}
				if after != before+1 {
					acc.viol("relay/served-but-not-recorded", fmt.Sprintf("%s at %s: evidence count %d -> %d", desc, state, before, after))
				}
				sig, _ := hex.DecodeString(resp.Signature)
				if !ckey("N1").PublicKey().VerifyBytes(resp.Hash(), sig) {
					acc.viol("relay/response-signature", fmt.Sprintf("%s at %s: response signature does not verify under the servicer key", desc, state))
				}
				acc.outcome("served")
				return
			}
			if err == nil {
				acc.viol("relay/unauthorized-relay-served/"+args["class"], fmt.Sprintf("%s at %s was served (%s)", desc, state, why))
			} else {
				acc.outcome(fmt.Sprintf("rejected:%s:%d", args["class"], err.Code()))
			}
			if after != before || afterDefault != beforeDefault {
				acc.viol("relay/unauthorized-relay-recorded/"+args["class"], fmt.Sprintf("%s at %s: evidence count %d -> %d (%s)", desc, state, before+beforeDefault, after+afterDefault, why))
			}
		}
		okNow, why := authorized("P1", "0001", cur)
		if why == "?" {
			return
		}
		try("well-formed relay", map[string]string{"class": "none"}, okNow, why)
		if okNow {
			// the same relay again (identical proof) must be refused and not recorded twice
			a := map[string]string{"entropy": "77", "class": "duplicate"}
			rl := r.relayFromArgs(a)
			_, e1 := pk.HandleRelay(ctx, rl)
			n1 := evidenceCount("P1", "0001", cur)
			_, e2 := pk.HandleRelay(ctx, rl)
			n2 := evidenceCount("P1", "0001", cur)
			acc.evals += 2
			if e1 != nil || e2 == nil || n2 != n1 {
				acc.viol("relay/duplicate-relay", fmt.Sprintf("identical relay sent twice at height %d: first err=%v, second err=%v, evidence %d -> %d", r.height, e1, e2, n1, n2))
			}
		}
		for _, m := range c35Mutations {
			try("relay with "+m.name, map[string]string{"mutate": m.name, "class": m.class}, false, "altered "+m.class)
		}
		// field values chosen before signing (so all signatures are valid): other servicer, chains, sessions, heights, apps, clients
		try("relay addressed to N2", map[string]string{"servicer": "N2", "class": "servicer-key"}, false, "servicer key is not this node's")
		if ok2, w2 := authorized("P1", "0002", cur); w2 != "?" {
			try("relay for chain 0002", map[string]string{"chain": "0002", "class": "chain"}, ok2, w2)
		}
		try("relay for chain 0003 (not hosted)", map[string]string{"chain": "0003", "class": "chain"}, false, "chain not hosted")
		try("relay for an application key that is not staked", map[string]string{"app": "X", "class": "token-app-key"}, false, "application not staked")
		try("relay by another client with its own valid token", map[string]string{"client": "A3", "class": "none"}, okNow, why)
		for _, d := range []int64{-3, -2, -1, 1, 2} {
			s := cur + d*bps
			ok, w := authorized("P1", "0001", s)
			if w == "?" {
				continue
			}
			try(fmt.Sprintf("relay for session height %d", s), map[string]string{"session": fmt.Sprint(s), "class": "session-height"}, ok, w)
		}
		// heights that are not session boundaries: inside the running session (at most the node's height) and inside the
		// previous one
		for _, s := range []int64{cur + 1, cur - 1} {
			if s <= 0 || s > r.height+1 {
				continue
			}
			ok, w := authorized("P1", "0001", s)
			if w == "?" {
				continue
			}
			try(fmt.Sprintf("relay for height %d, which is not a session boundary (current session %d, node height %d)", s, cur, r.height), map[string]string{"session": fmt.Sprint(s), "class": "session-height"}, ok, w)
		}
		allow := int64(pc.GlobalPocketConfig.ClientBlockSyncAllowance)
		for _, d := range []int64{-allow - 1, -allow, allow, allow + 1} {
			try(fmt.Sprintf("relay with client block height %+d", d), map[string]string{"meta": fmt.Sprint(d), "class": "block-height"}, okNow && d >= -allow && d <= allow, orDefault(why, "client height outside the allowance"))
		}
	}

	register(&Check{ID: "C35", QuickBud: 150 * time.Second, ThorBud: 30 * time.Minute,
		Run: func(c *ev.Ctx) {
			c.Rule = "On the real application (this process is servicer N1; relays are executed against a local stub chain) every chain state reached by a menu of application unstake/restake, node jail/unjail/unstake/edit and empty blocks up to the depth is probed through the real HandleRelay with: a well-formed relay, the identical relay again, 20 single-field alterations (token signature/version/client key/app key, client signature, request hash, payload, servicer key, chain, session height, entropy), relays whose fields are valid but unauthorized (other servicer, chain not staked by the app, chain not hosted, unstaked application key), sessions -3..+2 around the current one, heights next to the current session boundary that start no session, and client heights at and beyond the sync allowance. A relay must be served, recorded exactly once and answered with a verifying servicer signature iff a reference evaluation of the state says it is authorized; otherwise it must be rejected and the stored evidence unchanged"
			c.Assume("session membership in the reference comes from pc.NewSession evaluated without caches (node selection itself is decided by C33); two environments: two seats for two nodes, and one seat for two nodes (the node is then often eligible but not selected)")
			env := defaultEnv()
			env.SessionNodeCount = 2
			env.MaxValidators = 3
			env.BaseRelays = 100000
			menu := []BlockSpec{{}, {Absent: []string{"N1"}}, blk(tx("node_unjail", "N1", "node", "N1", "as", "N1")), blk(tx("app_unstake", "P1")),
				blk(tx("node_unstake", "N2")), blk(tx("node_stake", "N1", "node", "N1", "value", "3000000", "output", "O1", "chains", "0002")),
				blk(tx("app_stake", "P1", "value", "2000000", "chains", "0002"))}
			depth := 3
			if c.Tier == "thorough" {
				depth = 5
			}
			// second environment: one seat per session and two candidate nodes, so that in about half of the sessions
			// this node is staked, eligible and NOT in the session
			env1 := env
			env1.SessionNodeCount = 1
			cfg1 := &chainCfg{Name: "relays-one-seat", Env: env1, Menu: menu[:5], Depth: depth, Want: []string{"c35:relays"}}
			cfg := &chainCfg{Name: "relays", Env: env, Menu: menu, Depth: depth, Want: []string{"c35:relays"}}
			cfg.OnResult = func(c *ev.Ctx, hist []int, job Job, res JobResult) {
				if n, ok := res.Obs["evals"].(float64); ok {
					c.AddEvals(int64(n))
				}
				if m, ok := res.Obs["outcomes"].(map[string]interface{}); ok {
					for k, v := range m {
						if f, ok := v.(float64); ok {
							c.OutcomeN("relay:"+k, int64(f))
						}
					}
				}
			}
			st := chainExplore(c, cfg)
			c.BoundDone = chainDone(c, cfg, st)
			cfg1.OnResult = cfg.OnResult
			st1 := chainExplore(c, cfg1)
			c.BoundDone += chainDone(c, cfg1, st1)
			getPool().Close()
		},
		Replay: chainReplayFn,
	})
}
