package checks

import (
	"bytes"
	"encoding/json"
	"fmt"
	"sort"
	"time"

	"github.com/pokt-network/pocket-core/store/rootmulti"
	storetypes "github.com/pokt-network/pocket-core/store/types"
	abci "github.com/tendermint/tendermint/abci/types"

	"verif/internal/ev"
	"verif/internal/seq"
)

// ---- C06: commit ids well-formed, transient state never leaks ----

func c06Final(s *msSys) (string, string) {
	// transient reads inside the block see the block's transient writes
	for i, k := range s.tkeys {
		if sig, what := msObserveStore(fmt.Sprintf("transient%d in block", i), s.block().GetKVStore(k), s.tmodel[i], s.cfg.keys, s.cfg.bounds[:2]); sig != "" {
			return "transient/" + sig, what
		}
	}
	if len(s.pending) != 0 || len(s.commits) == 0 {
		return "", ""
	}
	// right after a commit: transient stores are empty
	for i, k := range s.tkeys {
		if sig, what := msObserveStore(fmt.Sprintf("transient%d after commit", i), s.rs.GetKVStore(k), map[string][]byte{}, s.cfg.keys, s.cfg.bounds[:2]); sig != "" {
			return "transient-after-commit/" + sig, what
		}
	}
	// a node that performs only the persistent writes reports the same commit ids
	rs2, sk2, tk2 := msOpen(newEmptyMemDB(), s.cfg, false, 0)
	_ = rs2.LoadLatestVersion()
	for _, cm := range s.commits {
		var blk []msWrite
		for _, w := range cm.block {
			if !w.trans {
				blk = append(blk, w)
			}
		}
		id := msApplyBlock(rs2, sk2, tk2, blk)
		if id.Version != cm.id.Version || !bytes.Equal(id.Hash, cm.id.Hash) {
			return "apphash/transient-influence", fmt.Sprintf("version %d: hash %x with transient writes, %x without", cm.ver, cm.id.Hash, id.Hash)
		}
	}
	// a node without any transient store mounted agrees as well (hash is a function of persistent substores only)
	cfg3 := *s.cfg
	cfg3.nTrans = 0
	rs3, sk3, _ := msOpen(newEmptyMemDB(), &cfg3, false, 0)
	_ = rs3.LoadLatestVersion()
	for _, cm := range s.commits {
		var blk []msWrite
		for _, w := range cm.block {
			if !w.trans {
				blk = append(blk, w)
			}
		}
		id := msApplyBlock(rs3, sk3, nil, blk)
		if !bytes.Equal(id.Hash, cm.id.Hash) {
			return "apphash/transient-mounted", fmt.Sprintf("version %d: hash %x with transient stores mounted, %x without", cm.ver, cm.id.Hash, id.Hash)
		}
	}
	// consecutive commits with identical persistent contents and no writes must still advance the version by one
	return "", ""
}

func c06Specs(tier string) []*seq.Spec {
	cfg := &msCfg{nStores: 2, nTrans: 2, keys: msKeys3[:2], vals: [][]byte{[]byte("a")}, bounds: msBounds3[:3], maxCommits: 3, final: c06Final}
	depth := 7
	if tier == "thorough" {
		cfg = &msCfg{nStores: 2, nTrans: 2, keys: msKeys3[:2], vals: [][]byte{[]byte("a"), []byte("b")}, bounds: msBounds3[:3], maxCommits: 4, final: c06Final}
		depth = 8
	}
	d := *cfg
	d.direct = true
	return []*seq.Spec{msSpec("multistore-commitid", cfg, depth), msSpec("multistore-commitid-direct-writes", &d, depth-1)}
}

// ---- C08: rollback ----

func c08Final(s *msSys) (string, string) {
	if len(s.pending) != 0 || s.cms != nil || len(s.commits) < 2 {
		return "", ""
	}
	latest := s.latest()
	for t := int64(1); t < latest; t++ {
		db2 := copyMemDB(s.db)
		rsX, _, _ := msOpen(db2, s.cfg, false, 0)
		if err := rsX.LoadLatestVersion(); err != nil {
			return "rollback/open", err.Error()
		}
		if err := rsX.RollbackVersion(t); err != nil {
			return "rollback/error", fmt.Sprintf("RollbackVersion(%d) at height %d failed: %v", t, latest, err)
		}
		rsY, skY, tkY := msOpen(db2, s.cfg, false, 0)
		if err := rsY.LoadLatestVersion(); err != nil {
			return "rollback/reopen", fmt.Sprintf("reopen after RollbackVersion(%d) failed: %v", t, err)
		}
		want := s.commits[t-1]
		if id := rsY.LastCommitID(); id.Version != t || !bytes.Equal(id.Hash, want.id.Hash) {
			return "rollback/commitid", fmt.Sprintf("after RollbackVersion(%d) from %d the node reports %d:%x, committed at %d was %x", t, latest, id.Version, id.Hash, t, want.id.Hash)
		}
		if sig, what := msObserveMulti(fmt.Sprintf("rolled back to %d from %d", t, latest), rsY, skY, want.contents, s.cfg.keys, s.cfg.bounds, true); sig != "" {
			return "rollback/" + sig, what
		}
		for v := t + 1; v <= latest; v++ {
			rsZ, _, _ := msOpen(db2, s.cfg, false, 0)
			if err := rsZ.LoadVersion(v); err == nil {
				return "rollback/later-version-loadable", fmt.Sprintf("after RollbackVersion(%d) version %d can still be loaded", t, v)
			}
			if _, err := rsY.LoadLazyVersion(v); err == nil {
				return "rollback/later-version-lazy", fmt.Sprintf("after RollbackVersion(%d) version %d can still be lazy-loaded", t, v)
			}
			if _, err := rsY.CacheMultiStoreWithVersion(v); err == nil {
				return "rollback/later-version-cms", fmt.Sprintf("after RollbackVersion(%d) version %d can still be cache-loaded", t, v)
			}
			q := rsY.Query(abci.RequestQuery{Path: "/store0/key", Data: s.cfg.keys[0], Height: v})
			if q.Code == 0 && q.Value != nil {
				return "rollback/later-version-query", fmt.Sprintf("after RollbackVersion(%d) a query at height %d still returns %x", t, v, q.Value)
			}
		}
		// earlier versions stay readable
		for v := int64(1); v <= t; v++ {
			st, err := rsY.LoadLazyVersion(v)
			if err != nil {
				return "rollback/earlier-version-lost", fmt.Sprintf("after RollbackVersion(%d) version %d cannot be read: %v", t, v, err)
			}
			if sig, what := msObserveMulti(fmt.Sprintf("version %d after rollback to %d", v, t), (*st).(storetypes.MultiStore), skY, s.commits[v-1].contents, s.cfg.keys, s.cfg.bounds, false); sig != "" {
				return "rollback/earlier/" + sig, what
			}
		}
		// re-applying the same blocks reproduces the original hashes
		for v := t + 1; v <= latest; v++ {
			var id storetypes.CommitID
			if p := safely(func() { id = msApplyBlock(rsY, skY, tkY, s.commits[v-1].block) }); p != nil {
				return "rollback/reapply-panic", fmt.Sprintf("re-applying block %d after RollbackVersion(%d) from %d panicked: %v", v, t, latest, p)
			}
			if id.Version != v || !bytes.Equal(id.Hash, s.commits[v-1].id.Hash) {
				return "rollback/reapply-hash", fmt.Sprintf("re-applying block %d after RollbackVersion(%d) gives %d:%x, original %x", v, t, id.Version, id.Hash, s.commits[v-1].id.Hash)
			}
		}
		if sig, what := msObserveMulti(fmt.Sprintf("re-applied to %d after rollback to %d", latest, t), rsY, skY, s.commits[latest-1].contents, s.cfg.keys, s.cfg.bounds, false); sig != "" {
			return "rollback/reapplied/" + sig, what
		}
	}
	return "", ""
}

func c08Specs(tier string) []*seq.Spec {
	cfg := &msCfg{nStores: 2, keys: msKeys3[:2], vals: [][]byte{[]byte("a"), []byte("b")}, bounds: msBounds3[:3], maxCommits: 3, final: c08Final}
	depth := 7
	if tier == "thorough" {
		cfg = &msCfg{nStores: 2, keys: msKeys3, vals: [][]byte{[]byte("a"), []byte("b")}, bounds: msBounds3, maxCommits: 4, final: c08Final}
		depth = 8
	}
	d := *cfg
	d.direct = true
	return []*seq.Spec{msSpec("multistore-rollback", cfg, depth), msSpec("multistore-rollback-direct-writes", &d, depth-2)}
}

// ---- C09: historical reads ----

func c09Final(s *msSys) (string, string) {
	for _, v := range s.views {
		if sig, what := msObserveMulti(fmt.Sprintf("%s view of height %d opened at %s, now at height %d with %d pending writes", v.kind, v.ver, v.openedAt, s.latest(), len(s.pending)), v.ms, s.skeys, s.commits[v.ver-1].contents, s.cfg.keys, s.cfg.bounds, v.kind == "lazy"); sig != "" {
			return "view/" + sig, what
		}
	}
	// queries at every retained height
	for _, cm := range s.commits {
		for i := range s.skeys {
			for _, k := range s.cfg.keys {
				q := s.rs.Query(abci.RequestQuery{Path: fmt.Sprintf("/store%d/key", i), Data: k, Height: cm.ver})
				want, ok := cm.contents[i][string(k)]
				if q.Code != 0 || (q.Value == nil) != !ok || !bytes.Equal(q.Value, want) {
					return "query/value", fmt.Sprintf("Query(/store%d/key,%x,height=%d) = code %d value %s, committed %s (now at height %d)", i, k, cm.ver, q.Code, hx(q.Value), hx(want), s.latest())
				}
			}
		}
	}
	return "", ""
}

func c09Specs(tier string) []*seq.Spec {
	mk := func(cache int64, keys [][]byte, bounds [][]byte, maxc, maxv int) *msCfg {
		return &msCfg{nStores: 1, keys: keys, vals: [][]byte{[]byte("a"), []byte("b")}, bounds: bounds, maxCommits: maxc, iavlCache: cache, viewKinds: []string{"lazy", "cms"}, maxViews: maxv, final: c09Final}
	}
	// "direct": block writes go to the live stores of the root multistore, the way this application's deliver
	// state writes (a view opened in the middle of a block must still show the committed height)
	direct := func(c *msCfg) *msCfg { c.direct = true; return c }
	if tier == "thorough" {
		return []*seq.Spec{msSpec("historical-nodecache1", mk(1, msKeys3, msBounds3, 3, 2), 7), msSpec("historical-default", mk(0, msKeys3[:2], msBounds3[:3], 4, 3), 8),
			msSpec("historical-direct-writes", direct(mk(0, msKeys3[:2], msBounds3[:3], 3, 2)), 7)}
	}
	// three keys, one value: the smallest tree in which removing a key changes the separator key of an inner node
	// that older versions share (needs set x3, commit, remove, commit = 6 operations before the old version is read)
	three := mk(0, msKeys3, msBounds3[:3], 3, 1)
	three.vals = three.vals[:1]
	return []*seq.Spec{msSpec("historical-nodecache1", mk(1, msKeys3[:2], msBounds3[:3], 3, 2), 7), msSpec("historical-default", mk(0, msKeys3[:2], msBounds3[:3], 3, 2), 7),
		msSpec("historical-direct-writes", direct(mk(0, msKeys3[:2], msBounds3[:3], 3, 2)), 7), msSpec("historical-three-keys", three, 7)}
}

func init() {
	register(&Check{ID: "C06", QuickBud: 100 * time.Second, ThorBud: 30 * time.Minute,
		Run: func(c *ev.Ctx) {
			c.Rule = "BFS over all sequences of persistent set/delete, transient set and commit on a real rootmulti.Store with 2 IAVL + 2 transient substores; every commit must advance the version by exactly one; at every state: transient reads inside the block equal the block's transient writes; after every commit the transient stores are empty, and two other nodes (one performing only the persistent writes, one without transient stores mounted at all) report identical commit hashes for every version. Non-trivial = history with a commit"
			msRunSpecs(c, c06Specs(c.Tier))
		},
		Replay: msReplay(c06Specs),
	})
	register(&Check{ID: "C08", QuickBud: 100 * time.Second, ThorBud: 30 * time.Minute,
		Run: func(c *ev.Ctx) {
			c.Rule = "BFS over all sequences of set/delete/commit on a real 2-substore rootmulti.Store; at every committed state with >= 2 versions and for every target t < latest: RollbackVersion(t) on a byte copy of the DB, reopen with a fresh store: height, hash and every read (Get/Has/all ranges, direct and cache-wrapped) equal version t; every version > t is refused by LoadVersion, LoadLazyVersion, CacheMultiStoreWithVersion and Query; versions <= t stay readable; re-applying blocks t+1.. reproduces the original hashes and contents. Non-trivial = history with a commit"
			c.Assume("rollback to height 0 is not exercised (RollbackVersion documents height < latest; 0 means 'latest' to the tree loader)")
			msRunSpecs(c, c08Specs(c.Tier))
		},
		Replay: msReplay(c08Specs),
	})
	// application level: Context.PrevCtx(h) for every executed height h, from the final state of every explored
	// history, must show exactly the store content that was committed at h
	chainInvariants["prevctx"] = func(r *replica, res *JobResult) {
		ctx := r.ctxNow()
		var hs []int64
		for h := range r.digests {
			hs = append(hs, h)
		}
		sort.Slice(hs, func(i, j int) bool { return hs[i] < hs[j] })
		for _, h := range hs {
			pctx, err := ctx.PrevCtx(h)
			if err != nil {
				res.viol("prevctx/error", fmt.Sprintf("PrevCtx(%d) at height %d: %v", h, r.height, err))
				continue
			}
			if got := r.storeDigest(pctx.MultiStore()); got != r.digests[h] {
				res.viol("prevctx/content-differs-from-committed-height", fmt.Sprintf("at height %d the context PrevCtx(%d) shows store content with digest %s; the content committed at height %d had digest %s", r.height, h, got, h, r.digests[h]))
			}
			if h != r.height && !pctx.IsPrevCtx() {
				res.viol("prevctx/not-flagged-historical", fmt.Sprintf("at height %d the context PrevCtx(%d) is not flagged as historical", r.height, h))
			}
		}
	}
	register(&Check{ID: "C09", QuickBud: 100 * time.Second, ThorBud: 30 * time.Minute,
		Run: func(c *ev.Ctx) {
			c.Rule = "BFS over all sequences of set/delete/commit/open-historical-view (LoadLazyVersion as Context.PrevCtx and ABCI queries use it; CacheMultiStoreWithVersion) on a real rootmulti.Store (IAVL node cache size 1 and default; block writes through a cache multistore and, in a third configuration, directly into the live stores as this application's deliver state does); at every state every open view (however old, whatever was written or committed since, whichever other views were opened) is read completely (Get/Has/all ranges both directions, direct and cache-wrapped) and compared with the map committed at its height; store queries at every retained height likewise; on the real application, BFS over blocks (sends, claims for the running and the previous session, edit-stake, dispatch calls before and after a block) with Context.PrevCtx(h) for every executed height compared with the content committed at h. Non-trivial = history with a commit"
			msRunSpecs(c, c09Specs(c.Tier))
			// historical reads on a node whose state cache is switched on: chains long enough for the cache to recycle its
			// slots, every retained height read after every block and compared with a cache-less node on the same data
			c.Rule += "; with the state cache enabled: 15-block chains (all pairs of 6 per-block action sets, one-shot write/delete chains), every retained height read after every block"
			c10LongChains(c, 15)
			// application level (Context.PrevCtx with its height-keyed context cache)
			env := claimsEnv()
			menu := []BlockSpec{{}, blk(tx("send", "A1", "to", "A2", "amount", "3")), blk(tx("claim", "N1", "session", "cur")), blk(tx("claim", "N1", "session", "cur-1")),
				blk(tx("node_stake", "N2", "node", "N2", "value", "3000000", "output", "N2", "chains", "0001+0002")), {OffChain: []Probe{{Kind: "dispatch", Args: map[string]string{"app": "P1", "chain": "0001"}}}},
				{PostChain: []Probe{{Kind: "dispatch", Args: map[string]string{"app": "P1", "chain": "0001"}}}}}
			depth := 4
			if c.Tier == "thorough" {
				depth = 5
			}
			cfg := &chainCfg{Name: "prevctx", Env: env, Menu: menu, Depth: depth, Want: []string{"prevctx"}}
			st := chainExplore(c, cfg)
			c.BoundDone += chainDone(c, cfg, st)
			getPool().Close()
		},
		Replay: func(raw json.RawMessage) (string, error) {
			var probe map[string]json.RawMessage
			_ = json.Unmarshal(raw, &probe)
			if _, ok := probe["blocks"]; ok {
				return chainReplayFn(raw)
			}
			return msReplay(c09Specs)(raw)
		},
	})
}

var _ = rootmulti.MemoryCacheCapacity
var _ = seq.Run
