package checks

import (
	"bytes"
	"encoding/hex"
	"fmt"
	"sort"
	"strings"

	"github.com/pokt-network/pocket-core/codec"
	sdk "github.com/pokt-network/pocket-core/types"
	appsTypes "github.com/pokt-network/pocket-core/x/apps/types"
	nodesTypes "github.com/pokt-network/pocket-core/x/nodes/types"
)

func (res *JobResult) viol(sig, what string) { res.Viols = append(res.Viols, Viol{sig, what}) }

func upokt(c sdk.Coins) sdk.BigInt { return c.AmountOf(sdk.DefaultStakeDenom) }

// rawPrefix reads every key/value under a prefix of a substore straight from the committed tree.
func (r *replica) rawPrefix(store string, prefix []byte) (keys, vals [][]byte) {
	st := r.app.Store().GetKVStore(r.app.Keys[store])
	it, _ := sdk.KVStorePrefixIterator(st, prefix)
	defer it.Close()
	for ; it.Valid(); it.Next() {
		keys = append(keys, append([]byte{}, it.Key()...))
		vals = append(vals, append([]byte{}, it.Value()...))
	}
	return
}

func init() {
	// C17: total supply == sum of all balances (incl. module accounts); all balances canonical and non-negative
	chainInvariants["supply"] = func(r *replica, res *JobResult) {
		ctx := r.ctxNow()
		ak, _, _, _, _ := r.app.VerifKeepers()
		total := sdk.NewCoins()
		var parts []string
		for _, acc := range ak.GetAllAccounts(ctx) {
			c := acc.GetCoins()
			if !c.IsValid() && len(c) > 0 {
				res.viol("balance/not-canonical", fmt.Sprintf("account %s holds non-canonical coins %s at height %d", roleOf(acc.GetAddress()), c, r.height))
			}
			if c.IsAnyNegative() {
				res.viol("balance/negative", fmt.Sprintf("account %s holds negative coins %s at height %d", roleOf(acc.GetAddress()), c, r.height))
			}
			total = total.Add(c)
			parts = append(parts, fmt.Sprintf("%s=%s", roleOf(acc.GetAddress()), c))
		}
		sup := ak.GetSupply(ctx)
		if sup == nil {
			res.viol("supply/missing", fmt.Sprintf("no supply record at height %d", r.height))
			return
		}
		if !sup.GetTotal().IsEqual(total) {
			res.viol("supply/not-sum-of-balances", fmt.Sprintf("height %d: recorded supply %s, sum of all balances %s (%s)", r.height, sup.GetTotal(), total, strings.Join(parts, " ")))
		}
		res.Obs["supply"] = upokt(sup.GetTotal()).String()
	}

	// C19: node staking pool == sum of staked tokens of staked+unstaking nodes
	chainInvariants["nodepool"] = func(r *replica, res *JobResult) {
		ctx := r.ctxNow()
		ak, nk, _, _, _ := r.app.VerifKeepers()
		pool := ak.GetModuleAccount(ctx, nodesTypes.StakedPoolName)
		sum := sdk.ZeroInt()
		var parts []string
		for _, v := range nk.GetAllValidators(ctx) {
			if v.Status == sdk.Staked || v.Status == sdk.Unstaking {
				sum = sum.Add(v.StakedTokens)
			}
			parts = append(parts, fmt.Sprintf("%s:%s/status%d/jailed=%v", roleOf(v.Address), v.StakedTokens, v.Status, v.Jailed))
		}
		bal := sdk.ZeroInt()
		if pool != nil {
			bal = upokt(pool.GetCoins())
		}
		if d := r.donated[nodesTypes.StakedPoolName]; d > 0 && bal.Sub(sum).Equal(sdk.NewInt(d)) {
			res.viol("nodepool/surplus-equals-plain-sends-to-the-pool-address", fmt.Sprintf("height %d: node staking pool holds %s, staked+unstaking nodes hold %s; the surplus %d was sent to the pool's account address by ordinary send transactions, which the send handler accepts", r.height, bal, sum, d))
		} else if !bal.Equal(sum) {
			res.viol("nodepool/not-sum-of-stakes", fmt.Sprintf("height %d: node staking pool holds %s, nodes that are staked or unstaking hold %s in total (%s)", r.height, bal, sum, strings.Join(parts, " ")))
		}
	}

	// C20: application staking pool == sum of staked tokens of staked+unstaking apps
	chainInvariants["apppool"] = func(r *replica, res *JobResult) {
		ctx := r.ctxNow()
		ak, _, apk, _, _ := r.app.VerifKeepers()
		pool := ak.GetModuleAccount(ctx, appsTypes.StakedPoolName)
		sum := sdk.ZeroInt()
		var parts []string
		for _, a := range apk.GetAllApplications(ctx) {
			if a.Status == sdk.Staked || a.Status == sdk.Unstaking {
				sum = sum.Add(a.StakedTokens)
			}
			parts = append(parts, fmt.Sprintf("%s:%s/status%d", roleOf(a.Address), a.StakedTokens, a.Status))
		}
		bal := sdk.ZeroInt()
		if pool != nil {
			bal = upokt(pool.GetCoins())
		}
		if d := r.donated[appsTypes.StakedPoolName]; d > 0 && bal.Sub(sum).Equal(sdk.NewInt(d)) {
			res.viol("apppool/surplus-equals-plain-sends-to-the-pool-address", fmt.Sprintf("height %d: application staking pool holds %s, staked+unstaking applications hold %s; the surplus %d was sent to the pool's account address by ordinary send transactions", r.height, bal, sum, d))
		} else if !bal.Equal(sum) {
			res.viol("apppool/not-sum-of-stakes", fmt.Sprintf("height %d: application staking pool holds %s, applications that are staked or unstaking hold %s in total (%s)", r.height, bal, sum, strings.Join(parts, " ")))
		}
	}

	// C21: node indexes agree with the node records
	chainInvariants["nodeindex"] = func(r *replica, res *JobResult) {
		ctx := r.ctxNow()
		_, nk, _, _, _ := r.app.VerifKeepers()
		vals := nk.GetAllValidators(ctx)
		byAddr := map[string]nodesTypes.Validator{}
		for _, v := range vals {
			byAddr[string(v.Address)] = v
		}
		desc := func(v nodesTypes.Validator) string {
			return fmt.Sprintf("%s{status %d jailed %v tokens %s chains %v unstaking %s}", roleOf(v.Address), v.Status, v.Jailed, v.StakedTokens, v.Chains, v.UnstakingCompletionTime.Format("15:04"))
		}
		// (1) staked-by-power index
		want := map[string]string{}
		for _, v := range vals {
			if v.Status == sdk.Staked && !v.Jailed {
				want[string(nodesTypes.KeyForValidatorInStakingSet(v))] = string(v.Address)
			}
		}
		keys, vs := r.rawPrefix(nodesTypes.StoreKey, nodesTypes.StakedValidatorsKey)
		got := map[string]string{}
		for i := range keys {
			got[string(keys[i])] = string(vs[i])
		}
		for k, a := range got {
			if want[k] != a {
				v, ok := byAddr[a]
				d := "a node that does not exist"
				if ok {
					d = desc(v)
				}
				res.viol("nodeindex/staked-set/stale-entry", fmt.Sprintf("height %d: staked-by-power index has entry %x -> %s, which refers to %s", r.height, k, roleOf(sdk.Address(a)), d))
			}
		}
		for k, a := range want {
			if got[k] != a {
				res.viol("nodeindex/staked-set/missing-entry", fmt.Sprintf("height %d: staked, unjailed node %s is not in the staked-by-power index under its current power", r.height, desc(byAddr[a])))
			}
		}
		// (2) per-chain index
		wantC := map[string]bool{}
		for _, v := range vals {
			if v.Status == sdk.Staked {
				for _, c := range v.Chains {
					cb, _ := hex.DecodeString(c)
					wantC[string(nodesTypes.KeyForValidatorByNetworkID(v.Address, cb))] = true
				}
			}
		}
		keys, _ = r.rawPrefix(nodesTypes.StoreKey, nodesTypes.StakedValidatorsByNetIDKey)
		gotC := map[string]bool{}
		for _, k := range keys {
			gotC[string(k)] = true
			if !wantC[string(k)] {
				addr := sdk.Address(k[len(k)-sdk.AddrLen:])
				v, ok := byAddr[string(addr)]
				d := "a node that does not exist"
				if ok {
					d = desc(v)
				}
				res.viol("nodeindex/by-chain/stale-entry", fmt.Sprintf("height %d: per-chain index entry %x (chain %x) refers to %s", r.height, k, k[1:len(k)-sdk.AddrLen], d))
			}
		}
		for k := range wantC {
			if !gotC[k] {
				addr := sdk.Address([]byte(k)[len(k)-sdk.AddrLen:])
				res.viol("nodeindex/by-chain/missing-entry", fmt.Sprintf("height %d: staked node %s is missing from the per-chain index for chain %x", r.height, desc(byAddr[string(addr)]), []byte(k)[1:len(k)-sdk.AddrLen]))
			}
		}
		// (3) unstaking queue (as a set per completion time)
		wantU := map[string]bool{}
		for _, v := range vals {
			if v.Status == sdk.Unstaking {
				wantU[string(nodesTypes.KeyForUnstakingValidators(v.UnstakingCompletionTime))+"|"+string(v.Address)] = true
			}
		}
		keys, vs = r.rawPrefix(nodesTypes.StoreKey, nodesTypes.UnstakingValidatorsKey)
		gotU := map[string]bool{}
		dups := 0
		cdc := r.app.VerifCodec()
		for i := range keys {
			var addrs sdk.Addresses
			if err := cdc.UnmarshalBinaryLengthPrefixed(vs[i], &addrs, r.height); err != nil {
				res.viol("nodeindex/unstaking-queue/undecodable", fmt.Sprintf("height %d: unstaking queue slot %x cannot be decoded: %v", r.height, keys[i], err))
				continue
			}
			for _, a := range addrs {
				k := string(keys[i]) + "|" + string(a)
				if gotU[k] {
					dups++
				}
				gotU[k] = true
				if !wantU[k] {
					v, ok := byAddr[string(a)]
					d := "a node that does not exist"
					if ok {
						d = desc(v)
					}
					res.viol("nodeindex/unstaking-queue/stale-entry", fmt.Sprintf("height %d: unstaking queue slot %x lists %s, which is %s", r.height, keys[i][1:], roleOf(a), d))
				}
			}
		}
		for k := range wantU {
			if !gotU[k] {
				a := sdk.Address([]byte(k)[strings.LastIndex(k, "|")+1:])
				res.viol("nodeindex/unstaking-queue/missing-entry", fmt.Sprintf("height %d: unstaking node %s is not in the unstaking queue under its completion time", r.height, desc(byAddr[string(a)])))
			}
		}
		res.Obs["unstaking_queue_duplicates"] = dups
		// (4) waiting-to-unstake entries refer to existing staked nodes
		_, vs = r.rawPrefix(nodesTypes.StoreKey, nodesTypes.WaitingToBeginUnstakingKey)
		for _, a := range vs {
			v, ok := byAddr[string(a)]
			if !ok {
				res.viol("nodeindex/waiting/missing-node", fmt.Sprintf("height %d: waiting-to-unstake entry refers to %s, which does not exist", r.height, roleOf(sdk.Address(a))))
			} else if v.Status != sdk.Staked {
				res.viol("nodeindex/waiting/not-staked", fmt.Sprintf("height %d: waiting-to-unstake entry refers to %s", r.height, desc(v)))
			}
		}
	}

	// C22: folded validator updates == top-N staked unjailed nodes with current power
	chainInvariants["valset"] = func(r *replica, res *JobResult) {
		ctx := r.ctxNow()
		_, nk, _, _, _ := r.app.VerifKeepers()
		maxVals := int(nk.MaxValidators(ctx))
		type el struct {
			pk    string
			role  string
			power int64
		}
		var elig []el
		for _, v := range nk.GetAllValidators(ctx) {
			if v.Status == sdk.Staked && !v.Jailed && v.ConsensusPower() > 0 {
				elig = append(elig, el{hex.EncodeToString(v.PublicKey.RawBytes()), roleOf(v.Address), v.ConsensusPower()})
			}
		}
		sort.Slice(elig, func(i, j int) bool { return elig[i].power > elig[j].power })
		n := len(elig)
		if n > maxVals {
			n = maxVals
		}
		var setDesc []string
		for k, p := range r.valset {
			pk, _ := hex.DecodeString(k)
			setDesc = append(setDesc, fmt.Sprintf("%s=%d", roleOfPub(pk), p))
		}
		sort.Strings(setDesc)
		var eligDesc []string
		for _, e := range elig {
			eligDesc = append(eligDesc, fmt.Sprintf("%s=%d", e.role, e.power))
		}
		ctxd := fmt.Sprintf("height %d, max validators %d: consensus set after applying all reported updates %v; staked unjailed nodes by power %v", r.height, maxVals, setDesc, eligDesc)
		if len(r.valset) != n {
			res.viol("valset/size", ctxd+fmt.Sprintf(": expected %d members", n))
			return
		}
		minMember := int64(1 << 62)
		eligMap := map[string]int64{}
		for _, e := range elig {
			eligMap[e.pk] = e.power
		}
		for k, p := range r.valset {
			cur, ok := eligMap[k]
			if !ok {
				pk, _ := hex.DecodeString(k)
				res.viol("valset/ineligible-member", ctxd+fmt.Sprintf(": member %s is not a staked unjailed node", roleOfPub(pk)))
				return
			}
			if cur != p {
				pk, _ := hex.DecodeString(k)
				res.viol("valset/stale-power", ctxd+fmt.Sprintf(": member %s reported with power %d, current power %d", roleOfPub(pk), p, cur))
				return
			}
			if p < minMember {
				minMember = p
			}
		}
		for _, e := range elig {
			if _, in := r.valset[e.pk]; !in && e.power > minMember {
				res.viol("valset/not-top-n", ctxd+fmt.Sprintf(": non-member %s has more power (%d) than a member (%d)", e.role, e.power, minMember))
				return
			}
		}
	}
}

var _ = bytes.Equal

func init() {
	// balances: observation (not an invariant) - every account's uPOKT by role / module name, plus node and app records
	chainInvariants["balances"] = func(r *replica, res *JobResult) {
		ctx := r.ctxNow()
		ak, nk, apk, _, _ := r.app.VerifKeepers()
		bal := map[string]string{}
		for _, acc := range ak.GetAllAccounts(ctx) {
			name := roleOf(acc.GetAddress())
			for _, m := range []string{"fee_collector", nodesTypes.StakedPoolName, appsTypes.StakedPoolName, "dao", "pos"} {
				if bytes.Equal(ak.GetModuleAddress(m), acc.GetAddress()) {
					name = "module:" + m
				}
			}
			bal[name] = upokt(acc.GetCoins()).String()
			if len(acc.GetCoins()) > 1 || (len(acc.GetCoins()) == 1 && acc.GetCoins()[0].Denom != sdk.DefaultStakeDenom) {
				bal[name] = acc.GetCoins().String()
			}
		}
		res.Obs["balances"] = bal
		nodes := map[string]map[string]string{}
		for _, v := range nk.GetAllValidators(ctx) {
			var ds []string
			for k, p := range v.RewardDelegators {
				a, _ := sdk.AddressFromHex(k)
				ds = append(ds, fmt.Sprintf("%s:%d", roleOf(a), p))
			}
			sort.Strings(ds)
			ju := ""
			if si, ok := nk.GetValidatorSigningInfo(ctx, v.Address); ok {
				ju = fmt.Sprint(si.JailedUntil.Unix())
			}
			// the node as the lookups see it: the chains whose by-chain index lists it (session candidates) and
			// whether the staked-validator set holds it
			var listed []string
			for _, ch := range []string{"0001", "0002", "0003"} {
				as, _ := nk.GetValidatorsByChain(ctx, ch)
				for _, a := range as {
					if a.Equals(v.Address) {
						listed = append(listed, ch)
					}
				}
			}
			inSet := false
			for _, sv := range nk.GetStakedValidators(ctx) {
				if sv.GetAddress().Equals(v.Address) {
					inSet = true
				}
			}
			nodes[roleOf(v.Address)] = map[string]string{"listed_on": strings.Join(listed, "+"), "in_staked_set": fmt.Sprint(inSet), "status": fmt.Sprint(int(v.Status)), "jailed": fmt.Sprint(v.Jailed), "tokens": v.StakedTokens.String(), "chains": strings.Join(v.Chains, "+"),
				"url": v.ServiceURL, "output": roleOf(v.OutputAddress), "delegators": strings.Join(ds, "+"), "pubkey": roleOfPub(v.PublicKey.RawBytes()), "address": roleOf(v.Address),
				"unstaking": fmt.Sprint(v.UnstakingCompletionTime.Unix()), "waiting": fmt.Sprint(nk.IsWaitingValidator(ctx, v.Address)), "jailed_until": ju}
		}
		res.Obs["nodes"] = nodes
		appsM := map[string]map[string]string{}
		for _, a := range apk.GetAllApplications(ctx) {
			appsM[roleOf(a.Address)] = map[string]string{"status": fmt.Sprint(int(a.Status)), "jailed": fmt.Sprint(a.Jailed), "tokens": a.StakedTokens.String(), "chains": strings.Join(a.Chains, "+"),
				"maxrelays": a.MaxRelays.String(), "pubkey": roleOfPub(a.PublicKey.RawBytes()), "address": roleOf(a.Address), "unstaking": fmt.Sprint(a.UnstakingCompletionTime.Unix())}
		}
		res.Obs["blocktime"] = fmt.Sprint(r.time.Unix())
		_, _, _, gk, _ := r.app.VerifKeepers()
		res.Obs["params"] = gk.GetAllParamNameValue(ctx)
		up := gk.GetUpgrade(ctx)
		var gm []string
		for k, v := range codec.UpgradeFeatureMap {
			gm = append(gm, fmt.Sprintf("%s:%d", k, v))
		}
		sort.Strings(gm)
		res.Obs["upgrade"] = map[string]string{"height": fmt.Sprint(up.Height), "version": up.Version, "old_height": fmt.Sprint(up.OldUpgradeHeight), "features": strings.Join(up.Features, ","),
			"global_feature_map": strings.Join(gm, ","), "global_upgrade_height": fmt.Sprint(codec.UpgradeHeight), "global_old_upgrade_height": fmt.Sprint(codec.OldUpgradeHeight)}
		res.Obs["apps"] = appsM
	}
}

func init() {
	// exportjson: the application state exported at the final height (C43 phase 1)
	chainInvariants["exportjson"] = func(r *replica, res *JobResult) {
		bz, err := r.app.ExportAppState(r.height, false, nil)
		if err != nil {
			res.viol("export/error", fmt.Sprintf("ExportAppState(%d) failed: %v", r.height, err))
			return
		}
		res.Obs["export"] = string(bz)
	}
	// claims: pending claims (observation)
	chainInvariants["claims"] = func(r *replica, res *JobResult) {
		_, _, _, _, pk := r.app.VerifKeepers()
		var out []string
		for _, c := range pk.GetAllClaims(r.ctxNow()) {
			out = append(out, fmt.Sprintf("%s/%s/%d/%s/%d/%x/exp%d", roleOf(c.FromAddress), c.SessionHeader.Chain, c.SessionHeader.SessionBlockHeight, c.SessionHeader.ApplicationPubKey[:8], c.TotalProofs, c.MerkleRoot.Hash, c.ExpirationHeight))
		}
		sort.Strings(out)
		res.Obs["claims"] = out
	}
}
