package checks

import (
	"encoding/hex"
	"fmt"
	"strings"
	"time"

	pcrypto "github.com/pokt-network/pocket-core/crypto"

	"verif/internal/ev"
)

func multiAddrHex(names ...string) string {
	var pubs []pcrypto.PublicKey
	for _, n := range names {
		pubs = append(pubs, ckey(n).PublicKey())
	}
	return "hex:" + hex.EncodeToString(pcrypto.PublicKeyMultiSignature{PublicKeys: pubs}.Address())
}

type c14Msg struct {
	name    string
	tx      TxSpec   // with the intended (authorized) signer
	allowed []string // keys whose signature makes the transaction authorized
	others  []string // keys that must not be able to make it take effect
	// rebind: how to express "signed by key k" for this message (some messages carry a claimed-signer field)
	withSigner func(t TxSpec, k string) TxSpec
}

func c14Messages() []c14Msg {
	plain := func(t TxSpec, k string) TxSpec { t.Signer = k; return t }
	return []c14Msg{
		{"send", tx("send", "A1", "from", "A1", "to", "A2", "amount", "7"), []string{"A1"}, []string{"A2", "X", "N1"}, plain},
		{"node-stake-new", tx("node_stake", "N3", "node", "N3", "value", "1000000", "chains", "0001", "output", "N3"), []string{"N3"}, []string{"A2", "X", "N1"}, plain},
		{"node-edit-stake", tx("node_stake", "N1", "node", "N1", "value", "4000000", "chains", "0001", "output", "O1"), []string{"N1", "O1"}, []string{"A2", "X", "N2"}, plain},
		{"node-unstake", tx("node_unstake", "N1", "node", "N1", "as", "N1"), []string{"N1"}, []string{"A2", "X", "O1", "N2"}, plain},
		{"node-unjail", tx("node_unjail", "N1", "node", "N1", "as", "N1"), []string{"N1"}, []string{"A2", "X", "N2"}, plain},
		{"app-stake-new", tx("app_stake", "P2", "app", "P2", "value", "1000000"), []string{"P2"}, []string{"A2", "X", "P1"}, plain},
		{"app-edit-stake", tx("app_stake", "P1", "app", "P1", "value", "3000000"), []string{"P1"}, []string{"A2", "X", "P2"}, plain},
		{"app-transfer", tx("app_stake", "P1", "app", "NEW", "value", "0", "chains", ""), []string{"P1"}, []string{"A2", "X", "P2", "N1"}, plain},
		{"app-unstake", tx("app_unstake", "P1", "app", "P1"), []string{"P1"}, []string{"A2", "X", "P2"}, plain},
		{"gov-param", tx("gov_param", "G", "from", "G", "key", "pos/MaxValidators", "value", `"1"`), []string{"G"}, []string{"A2", "X", "D"}, plain},
		{"gov-dao-transfer", tx("gov_dao", "D", "from", "D", "action", "dao_transfer", "to", "A2", "amount", "5"), []string{"D"}, []string{"A2", "X", "G"}, plain},
		{"gov-upgrade", tx("gov_upgrade", "G", "from", "G", "height", "50", "version", "0.11.0"), []string{"G"}, []string{"A2", "X", "D"}, plain},
	}
}

var c14Corruptions = []string{"sig-flip-first", "sig-flip-middle", "sig-flip-last", "sig-empty", "sig-by-stranger", "pubkey-of-stranger", "sign-other-chain", "sign-other-entropy", "sign-other-fee", "sign-other-memo", "sign-other-msg"}

func c14Cases(tier string) []chainCase {
	var cases []chainCase
	envs := []EnvCfg{defaultEnv()}
	if tier == "thorough" {
		envs = append(envs, crossingEnv())
	}
	mk := func(env EnvCfg, ei int, name, class string, pre []BlockSpec, t TxSpec, authorized bool) {
		ref := append(append([]BlockSpec{}, pre...), BlockSpec{})
		sub := append(append([]BlockSpec{}, pre...), blk(t))
		desc := t.String()
		cases = append(cases, chainCase{Name: fmt.Sprintf("env%d/%s", ei, name), Class: class, Env: env, Ref: ref, Subject: sub, Want: []string{"balances"},
			Oracle: func(r, s JobResult) (string, string) {
				tr := lastTx(s)
				changed := lastHash(r) != lastHash(s)
				if !authorized && (changed || tr.Code == 0) {
					return "unauthorized-tx-took-effect/" + class, fmt.Sprintf("transaction %s is not authorized, yet result code %d and state changed=%v (balance changes %s)", desc, tr.Code, changed, deltaStr(balanceDelta(r, s)))
				}
				return "", ""
			}})
	}
	// nodes staked before the non-custodial upgrade have no output address: nobody but the operator may edit them,
	// in particular not a key that names ITSELF as the new output address in the message it signs
	cust := defaultEnv()
	cust.Genesis, cust.Setup = "custodial-nodes", nil
	for _, k := range []string{"X", "A2", "N2", "O1"} {
		for _, val := range []string{"3000000", "4000000"} {
			k, val := k, val
			t := tx("node_stake", k, "node", "N1", "value", val, "chains", "0001", "output", k)
			// the signer is a declared signer of its own message, so the ante handler charges it the fee; the
			// message itself must be refused and the node record, pool and every other balance stay untouched
			cases = append(cases, chainCase{Name: "env2/node-edit-stake-custodial/output-and-signer-" + k + "/value-" + val, Class: "signer-other", Env: cust,
				Ref: []BlockSpec{{}}, Subject: []BlockSpec{blk(t)}, Want: []string{"balances"},
				Oracle: func(r, s JobResult) (string, string) {
					tr := lastTx(s)
					before, after := obsRecords(r, "nodes"), obsRecords(s, "nodes")
					d := balanceDelta(r, s)
					onlyFee := true
					for who := range d {
						if who != k && who != "module:fee_collector" {
							onlyFee = false
						}
					}
					if tr.Code == 0 || fmt.Sprint(before["N1"]) != fmt.Sprint(after["N1"]) || !onlyFee {
						return "unauthorized-tx-took-effect/signer-other", fmt.Sprintf("%s (the node has no output address; %s is neither operator nor output address): result code %d, node record before %v after %v, balance changes %s", t.String(), k, tr.Code, before["N1"], after["N1"], deltaStr(d))
					}
					return "", ""
				}})
		}
	}
	// a key that is neither operator nor output address NAMES ITSELF as the signer of an unjail / begin-unstake for
	// somebody else's node (so the signature check of the ante handler passes and it pays the fee): the message must be
	// refused and every node record stay as it was - also when the node is jailed, and when governance has raised the
	// minimum stake above the node's stake (the branch in which unjail handling queues the node for unstaking)
	raiseMin := blk(tx("gov_param", "G", "from", "G", "key", "pos/StakeMinimum", "value", `"5000000"`))
	for _, st := range []struct {
		name string
		pre  []BlockSpec
	}{{"plain", nil}, {"node-jailed", []BlockSpec{{Absent: []string{"N1"}}, {Absent: []string{"N1"}}}}, {"minimum-raised-above-stake", []BlockSpec{raiseMin}},
		{"jailed-and-minimum-raised", []BlockSpec{{Absent: []string{"N1"}}, {Absent: []string{"N1"}}, raiseMin}}} {
		for _, kind := range []string{"node_unjail", "node_unstake"} {
			for _, k := range []string{"A2", "N2"} {
				st, kind, k := st, kind, k
				t := tx(kind, k, "node", "N1", "as", k)
				cases = append(cases, chainCase{Name: fmt.Sprintf("env0/%s-of-N1-by-self-named-%s/%s", kind, k, st.name), Class: "signer-other", Env: defaultEnv(),
					Ref: append(append([]BlockSpec{}, st.pre...), BlockSpec{}), Subject: append(append([]BlockSpec{}, st.pre...), blk(t)), Want: []string{"balances"},
					Oracle: func(r, s JobResult) (string, string) {
						tr := lastTx(s)
						before, after := obsRecords(r, "nodes"), obsRecords(s, "nodes")
						d := balanceDelta(r, s)
						onlyFee := true
						for who := range d {
							if who != k && who != "module:fee_collector" {
								onlyFee = false
							}
						}
						if tr.Code == 0 || fmt.Sprint(before) != fmt.Sprint(after) || !onlyFee {
							return "unauthorized-tx-took-effect/signer-other", fmt.Sprintf("%s (%s is neither operator nor output address of N1; state: %s): result code %d, node records before %v after %v, balance changes %s", t.String(), k, st.name, tr.Code, before, after, deltaStr(d))
						}
						return "", ""
					}})
			}
		}
	}
	for ei, env := range envs {
		if ei == 1 {
			// legacy environment (features activate later): only messages that exist before activation
			for _, m := range c14Messages()[:1] {
				for _, k := range append(append([]string{}, m.allowed...), m.others...) {
					auth := contains(m.allowed, k)
					mk(env, ei, m.name+"/signed-by-"+k, "signer-"+boolStr(auth, "allowed", "other"), nil, m.withSigner(m.tx, k), auth)
				}
				for _, cr := range c14Corruptions {
					t := m.tx
					t.Mutate = cr
					mk(env, ei, m.name+"/"+cr, "corrupt-"+cr, nil, t, false)
				}
			}
			continue
		}
		for _, m := range c14Messages() {
			for _, k := range append(append([]string{}, m.allowed...), m.others...) {
				auth := contains(m.allowed, k)
				mk(env, ei, m.name+"/signed-by-"+k, "signer-"+boolStr(auth, "allowed", "other"), nil, m.withSigner(m.tx, k), auth)
			}
			for _, cr := range c14Corruptions {
				t := m.tx
				t.Mutate = cr
				mk(env, ei, m.name+"/"+cr, "corrupt-"+cr, nil, t, false)
			}
		}
		// multi-signature accounts: funded first, then spend
		type ms struct {
			signer string
			keys   []string
			auth   bool
		}
		for _, x := range []ms{
			{"multi:A1+A2", []string{"A1", "A2"}, true},
			{"multi:A1+A2!order", []string{"A1", "A2"}, false},
			{"multi:A1+A2!missing", []string{"A1", "A2"}, false},
			{"multi:A1+A2!dup", []string{"A1", "A2"}, false},
			{"multi:A1+A2!empty-first", []string{"A1", "A2"}, false},
			{"multi:A1+A2!empty-last", []string{"A1", "A2"}, false},
			{"multi:A1+A2!empty-all", []string{"A1", "A2"}, false},
			{"multi:A1+A2!nil-all", []string{"A1", "A2"}, false},
			{"multi:A1+A2!stranger-last", []string{"A1", "A2"}, false},
			{"multi:A2+A1", []string{"A1", "A2"}, false}, // other key order = other account
			{"multi:A1", []string{"A1"}, true},
			{"multi:", nil, false}, // a key with no members: nobody can have signed
		} {
			addr := multiAddrHex(x.keys...)
			pre := []BlockSpec{blk(tx("send", "A1", "to", addr, "amount", "100000"))}
			t := tx("send", x.signer, "from", addr, "to", "A2", "amount", "7")
			mk(env, ei, "multisig-send/"+x.signer, "multisig-"+boolStr(x.auth, "allowed", "other"), pre, t, x.auth)
		}
	}
	return cases
}

func contains(l []string, s string) bool {
	for _, x := range l {
		if x == s {
			return true
		}
	}
	return false
}

func boolStr(b bool, t, f string) string {
	if b {
		return t
	}
	return f
}

func init() {
	register(&Check{ID: "C14", QuickBud: 110 * time.Second, ThorBud: 20 * time.Minute,
		Run: func(c *ev.Ctx) {
			c.Rule = "12 message kinds (send, node stake/edit/unstake/unjail, app stake/edit/transfer/unstake, param change, DAO transfer, upgrade) x every signer relation (each documented signer incl. the node's output address and the current application for a transfer; other funded keys, other role holders, an unfunded stranger) x 11 corruptions (signature bit flips first/middle/last, empty signature, signature by another key, foreign public key, signature over another chain id / entropy / fee / memo / message) plus multi-signature accounts (in order, swapped, missing, duplicated, other member order, one member, zero members): the transaction is delivered in a block of the real application next to a reference replica with an empty block; an unauthorized transaction must return a non-zero code and leave the app hash identical to the reference"
			c.Assume("authorization reference = the message's declared signers plus the documented output-address and application-transfer cases (doc/specs/msgstake_flow.md); height 30334 (CodecChainHaltHeight patch) is outside the explored heights")
			runChainCases(c, "auth", c14Cases(c.Tier))
			getPool().Close()
		},
		Replay: caseReplayFn(func(spec, name string) *chainCase {
			for _, cs := range c14Cases("thorough") {
				if cs.Name == name {
					x := cs
					return &x
				}
			}
			return nil
		}),
	})
}

var _ = strings.HasPrefix
var _ = time.Second
