//go:build verif && vsched

package checks

import (
	"encoding/hex"
	"fmt"
	"sort"
	"strings"
	"time"

	pcrypto "github.com/pokt-network/pocket-core/crypto"
	sdk "github.com/pokt-network/pocket-core/types"
	"github.com/pokt-network/pocket-core/x/auth"
	"github.com/pokt-network/pocket-core/x/auth/util"
	pc "github.com/pokt-network/pocket-core/x/pocketcore/types"
	"github.com/pokt-network/pocket-core/x/pocketcore/types/vsync"
	dbm "github.com/tendermint/tm-db"

	"verif/internal/ev"
	"verif/internal/sched"
)

// C34: every interleaving (up to a preemption bound) of concurrently served relays on the real HandleRelay,
// with the evidence-cache mutex operations as scheduling points.

type c34Thread struct {
	Kind    string // relay | seal
	Entropy int64  // relay identity (same entropy = identical relay)
}

type c34Scenario struct {
	Name    string
	Threads []c34Thread
	Base    int64 // BaseRelaysPerPOKT -> per-node limit = Base/100
}

func c34Scenarios() []c34Scenario {
	return []c34Scenario{
		{"two-identical-relays", []c34Thread{{"relay", 1}, {"relay", 1}}, 100000},
		{"two-distinct-relays", []c34Thread{{"relay", 1}, {"relay", 2}}, 100000},
		{"three-relays-limit-two", []c34Thread{{"relay", 1}, {"relay", 2}, {"relay", 3}}, 200},
		{"relay-vs-seal", []c34Thread{{"relay", 2}, {"seal", 0}}, 100000},
		{"two-relays-vs-seal", []c34Thread{{"relay", 2}, {"relay", 3}, {"seal", 0}}, 100000},
		{"identical-pair-and-distinct", []c34Thread{{"relay", 1}, {"relay", 1}, {"relay", 2}}, 100000},
		// the node's periodic flush of the evidence cache to its database (cache entries are evicted one by one and
		// written) against a relay that is already part of the stored evidence, and against a new one
		{"stored-relay-again-vs-flush", []c34Thread{{"relay", 902}, {"flush", 0}}, 100000},
		{"new-relay-vs-flush", []c34Thread{{"relay", 2}, {"flush", 0}}, 100000},
		// an evidence cache with room for ONE session: a relay for the running session pushes the previous session's
		// evidence out of the cache; a relay of that evidence sent again afterwards must still be recognised
		{"stored-relay-again-vs-relay-of-another-session/cache-of-one", []c34Thread{{"relay-cur", 7}, {"relay", 902}}, 100000},
	}
}

// schedDB makes every access of the evidence database a scheduling point (the goroutine stays enabled): the steps of a
// critical section that moves entries between the cache and the database can then be interleaved with code that reads
// the store without taking its lock.
type schedDB struct{ dbm.DB }

func (d schedDB) yield() {
	if sched.S.Active() {
		sched.S.Yield()
	}
}
func (d schedDB) Get(k []byte) ([]byte, error) { d.yield(); return d.DB.Get(k) }
func (d schedDB) Has(k []byte) (bool, error)   { d.yield(); return d.DB.Has(k) }
func (d schedDB) Set(k, v []byte) error        { d.yield(); return d.DB.Set(k, v) }
func (d schedDB) Delete(k []byte) error        { d.yield(); return d.DB.Delete(k) }

func init() {
	vsync.Active = sched.S.Active
	vsync.OnLock = func(m *vsync.Mutex) { sched.S.OnLock(m) }
	vsync.OnUnlock = func(m *vsync.Mutex) { sched.S.OnUnlock(m) }

	chainInvariants["c34:explore"] = func(r *replica, res *JobResult) {
		acc := newEvalAcc(res)
		defer acc.finish()
		var sc c34Scenario
		for _, s := range c34Scenarios() {
			if s.Name == r.args["scenario"] {
				sc = s
			}
		}
		bound := int(atoi(r.args["bound"]))
		budget := time.Duration(atoi(r.args["seconds"])) * time.Second
		deadline := time.Now().Add(budget)
		_, _, apk, _, pk := r.app.VerifKeepers()
		ctx := r.ctxNow()
		node := pc.GetPocketNode()
		store := node.EvidenceStore
		preload := false
		for _, t := range sc.Threads {
			if t.Kind == "seal" || t.Kind == "flush" || t.Kind == "relay-cur" {
				preload = true
			}
		}
		if _, wrapped := store.DB.(schedDB); !wrapped {
			store.DB = schedDB{store.DB}
		}
		sessArg := "cur"
		if preload {
			// the claim is generated after the session is over; relays for it are then still served only by
			// nodes configured with a session sync allowance (session rollover)
			sessArg = "cur-1"
			pc.GlobalPocketConfig.ClientSessionSyncAllowance = 1
		}
		cur := r.sessionHeightFor(sessArg, r.height)
		hdr := pc.SessionHeader{ApplicationPubKey: rawPub("P1"), Chain: "0001", SessionBlockHeight: cur}
		app, _ := apk.GetApplication(ctx, caddr("P1"))
		max := pc.MaxPossibleRelays(app, pk.SessionNodeCount(ctx))
		type outT struct {
			ok      bool
			err     string
			hash    string
			claimed int64
			root    string
		}
		outcomes := map[string]bool{}
		var preHashes map[string]bool // relays answered before the threads start (they belong to the evidence too)
		run := func(prefix []int) (sched.Exec, error) {
			capacity := 100
			if strings.Contains(sc.Name, "cache-of-one") {
				capacity = 1
			}
			store.Cache = sdk.NewCache(capacity)
			pc.ClearEvidence(store)
			pc.ClearSessionCache(node.SessionStore)
			if preload {
				// a claim is only generated for evidence with at least the minimum number of proofs (5)
				preHashes = map[string]bool{}
				for e := 900; e < 905; e++ {
					rl := r.relayFromArgs(map[string]string{"entropy": fmt.Sprint(e), "session": sessArg})
					preHashes[hex.EncodeToString(rl.Proof.Hash())] = true
					if _, err := pk.HandleRelay(ctx, rl); err != nil {
						return sched.Exec{}, fmt.Errorf("preload relay rejected: %v", err)
					}
				}
			}
			outs := make([]outT, len(sc.Threads))
			var fns []func()
			for i, t := range sc.Threads {
				i, t := i, t
				switch t.Kind {
				case "relay", "relay-cur":
					sa := sessArg
					if t.Kind == "relay-cur" {
						sa = "cur"
					}
					rl := r.relayFromArgs(map[string]string{"entropy": fmt.Sprint(t.Entropy), "session": sa})
					outs[i].hash = hex.EncodeToString(rl.Proof.Hash())
					fns = append(fns, func() {
						resp, err := pk.HandleRelay(ctx, rl)
						if err != nil {
							outs[i].err = fmt.Sprintf("%s/%d", err.Codespace(), err.Code())
							return
						}
						outs[i].ok = resp != nil && resp.Signature != ""
					})
				case "flush":
					fns = append(fns, func() {
						if err := store.FlushToDB(); err != nil {
							outs[i].err = err.Error()
							return
						}
						outs[i].ok = true
					})
				case "seal":
					fns = append(fns, func() {
						// the real claim generation of the node (runs after the session has ended); the transaction
						// sender is replaced by a recorder
						pk.SendClaimTx(ctx, pk, nil, node, func(_ pcrypto.PrivateKey, _ util.CLIContext, _ auth.TxBuilder, h pc.SessionHeader, total int64, root pc.HashRange, _ pc.EvidenceType) (*sdk.TxResponse, error) {
							outs[i].claimed = total
							outs[i].root = hex.EncodeToString(root.Hash)
							outs[i].ok = true
							return &sdk.TxResponse{}, nil
						})
					})
				}
			}
			x, err := sched.S.Run(prefix, fns, 20*time.Second)
			if err != nil {
				return x, err
			}
			acc.evals++
			desc := func() string {
				var ss []string
				for i, t := range sc.Threads {
					o := outs[i]
					switch {
					case t.Kind == "flush":
						ss = append(ss, fmt.Sprintf("T%d flush of the evidence cache: ok=%v %s", i, o.ok, o.err))
					case t.Kind == "seal":
						ss = append(ss, fmt.Sprintf("T%d seal: claimed %d relays", i, o.claimed))
					case o.ok:
						ss = append(ss, fmt.Sprintf("T%d relay#%d: answered", i, t.Entropy))
					default:
						ss = append(ss, fmt.Sprintf("T%d relay#%d: refused %s", i, t.Entropy, o.err))
					}
				}
				var sch []string
				for _, p := range x.Points {
					sch = append(sch, fmt.Sprint(p.Thread))
				}
				return fmt.Sprintf("scenario %s, schedule (thread run at each cache-lock point) [%s], %d preemptions: %s", sc.Name, strings.Join(sch, ""), x.Preempted, strings.Join(ss, "; "))
			}
			if x.Deadlock {
				acc.viol("relays/deadlock", desc())
				return x, fmt.Errorf("deadlock: process state is poisoned")
			}
			for _, p := range x.Panics {
				acc.viol("relays/panic", desc()+": "+p)
			}
			// final evidence
			e, gerr := pc.GetEvidence(hdr, pc.RelayEvidence, sdk.ZeroInt(), store)
			var hashes []string
			if gerr == nil {
				for _, p := range e.Proofs {
					hashes = append(hashes, hex.EncodeToString(p.Hash()))
				}
			}
			sort.Strings(hashes)
			var okey []string
			for i := range outs {
				okey = append(okey, fmt.Sprintf("%v/%s/%d", outs[i].ok, outs[i].err, outs[i].claimed))
			}
			outcomes[strings.Join(okey, ",")+"|"+fmt.Sprint(len(hashes))] = true
			seen := map[string]int{}
			for _, h := range hashes {
				seen[h]++
				if seen[h] == 2 {
					acc.viol("relays/same-proof-stored-twice", desc()+fmt.Sprintf(": the stored evidence holds %d proofs, one of them twice", len(hashes)))
				}
			}
			if gerr == nil && e.NumOfProofs != int64(len(e.Proofs)) {
				acc.viol("relays/count-differs-from-proofs", desc()+fmt.Sprintf(": NumOfProofs %d, %d proofs", e.NumOfProofs, len(e.Proofs)))
			}
			if int64(len(hashes)) > max.Int64() {
				acc.viol("relays/more-relays-than-allowed", desc()+fmt.Sprintf(": %d relays stored, the application allows this node %s", len(hashes), max))
			}
			answered := map[string]int{}
			for i, t := range sc.Threads {
				if t.Kind == "relay" && outs[i].ok {
					answered[outs[i].hash]++
					if seen[outs[i].hash] == 0 {
						acc.viol("relays/answered-relay-not-recorded", desc()+fmt.Sprintf(": relay#%d was answered with a signed response but is not in the stored evidence (%d proofs)", t.Entropy, len(hashes)))
					}
				}
			}
			sealed := false
			for i, t := range sc.Threads {
				sealed = sealed || (t.Kind == "seal" && outs[i].ok)
			}
			for h := range preHashes {
				if seen[h] == 0 && !sealed {
					acc.viol("relays/answered-relay-not-recorded", desc()+fmt.Sprintf(": a relay answered before the threads started is no longer in the stored evidence (%d proofs)", len(hashes)))
					break
				}
				if answered[h] > 0 {
					acc.viol("relays/identical-relay-answered-twice", desc()+fmt.Sprintf(": proof %s.. had been answered before and was answered again", h[:8]))
				}
			}
			for h, n := range answered {
				if n > 1 {
					acc.viol("relays/identical-relay-answered-twice", desc()+fmt.Sprintf(": proof %s.. answered %d times", h[:8], n))
				}
			}
			for i, t := range sc.Threads {
				if t.Kind == "seal" && outs[i].ok && outs[i].claimed != int64(len(hashes)) {
					acc.viol("relays/claimed-count-differs-from-stored", desc()+fmt.Sprintf(": the claim covers %d relays, the evidence holds %d after all relays completed", outs[i].claimed, len(hashes)))
				}
			}
			return x, nil
		}
		// determinism: the default schedule twice
		a, e1 := run(nil)
		b, e2 := run(nil)
		if e1 != nil || e2 != nil || fmt.Sprint(a.Points) != fmt.Sprint(b.Points) {
			res.Err = fmt.Sprintf("replaying the default schedule twice differs or fails: %v %v\n%v\n%v", e1, e2, a.Points, b.Points)
			return
		}
		var start [][]int
		if r.args["replay"] != "" {
			var pre []int
			for _, c := range r.args["replay"] {
				pre = append(pre, int(c-'0'))
			}
			if _, err := run(pre); err != nil {
				res.Err = err.Error()
			}
			return
		}
		execs, complete, err := sched.Explore(bound, start, run, func() bool { return time.Now().After(deadline) })
		if err != nil && !strings.Contains(err.Error(), "poisoned") {
			res.Err = err.Error()
			return
		}
		res.Obs["execs"] = execs
		res.Obs["complete"] = complete && err == nil
		res.Obs["distinct_outcomes"] = len(outcomes)
		var os []string
		for k := range outcomes {
			os = append(os, k)
		}
		sort.Strings(os)
		res.Obs["outcome_list"] = os
	}

	register(&Check{ID: "C34", QuickBud: 170 * time.Second, ThorBud: 40 * time.Minute,
		Run: func(c *ev.Ctx) {
			bound, secs := 2, 120
			if c.Tier == "thorough" {
				bound, secs = 50, 1500
			}
			c.Rule = fmt.Sprintf("Stateless model checking of the real keeper.HandleRelay: 2-3 goroutines (relays with identical or distinct proofs; the claim-time sealing of the evidence as SendClaimTx performs it) run under a cooperative scheduler whose scheduling points are the Lock operations of the evidence/session cache mutex (sync replaced by a shim in x/pocketcore/types/cache.go through a build overlay); depth-first enumeration of EVERY schedule with at most %d preemptions, each on freshly cleared caches over a real chain state; after each complete execution the stored evidence is compared with the responses: no proof twice, count = number of proofs, not above the application's per-node limit, every relay answered with a signed response is recorded, an identical relay is answered at most once, the claimed count equals the stored count", bound)
			c.Assume("memory accesses between two cache-lock operations of one goroutine are treated as atomic (the evidence object is only reached through the locked cache); the HTTP call to the stub chain runs while the goroutine holds the scheduler token")
			var shards []map[string]string
			for _, s := range c34Scenarios() {
				shards = append(shards, map[string]string{"scenario": s.Name, "bound": fmt.Sprint(bound), "seconds": fmt.Sprint(secs)})
			}
			p := getPool()
			type rT struct {
				name string
				res  JobResult
				job  Job
			}
			ch := make(chan rT, len(shards))
			for _, a := range shards {
				a := a
				go func() {
					env := claimsEnv()
					for _, s := range c34Scenarios() {
						if s.Name == a["scenario"] {
							env.BaseRelays = s.Base
						}
					}
					job := Job{Env: env, Blocks: []BlockSpec{{}, {}}, Want: []string{"c34:explore"}, Args: a, DeadlineSec: secs + 60}
					ch <- rT{a["scenario"], p.Exec(job), job}
				}()
			}
			done := ""
			for range shards {
				x := <-ch
				if x.res.Err != "" {
					c.HarnessError(x.name + ": " + x.res.Err)
					continue
				}
				for _, v := range x.res.Viols {
					c.Report(v.Sig+"/"+x.name, v.What, evalReplay{"c34", x.job})
				}
				n, _ := x.res.Obs["execs"].(float64)
				comp, _ := x.res.Obs["complete"].(bool)
				d, _ := x.res.Obs["distinct_outcomes"].(float64)
				c.AddStates(int64(n))
				c.AddTransitions(int64(n))
				c.AddTraces(int64(n))
				c.AddEvals(int64(n))
				c.OutcomeN("schedules:"+x.name, int64(n))
				c.OutcomeN("distinct-outcomes:"+x.name, int64(d))
				for i := 0; i < int(d); i++ {
					c.Distinct(fmt.Sprintf("%s|%d", x.name, i))
				}
				if !comp {
					c.Cap(fmt.Sprintf("%s: stopped by the time budget after %d schedules", x.name, int64(n)))
				}
				done += fmt.Sprintf("%s: %d schedules, all with <= %d preemptions covered = %v; ", x.name, int64(n), bound, comp)
			}
			c.BoundDone = done
			getPool().Close()
		},
		Replay: evalReplayFn,
	})
}
