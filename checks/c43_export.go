package checks

import (
	"encoding/json"
	"fmt"
	"math/big"
	"sort"
	"strings"
	"sync"
	"time"

	"verif/internal/ev"
)

func c43Histories(tier string) [][]BlockSpec {
	menu := []BlockSpec{
		{},
		blk(tx("send", "A1", "to", "NEW", "amount", "12345")),
		blk(tx("node_stake", "N3", "value", "1000000", "chains", "0001")),
		blk(tx("node_unstake", "N1")),
		blk(tx("app_stake", "P2", "value", "1000000")),
		blk(tx("app_unstake", "P1")),
		blk(tx("gov_dao", "D", "action", "dao_burn", "amount", "7")),
		blk(tx("gov_param", "G", "key", "pos/MaxValidators", "value", `"1"`)),
		{Absent: []string{"N2"}},
		// governance lowers a population limit below the current population (the entities stay, only new ones are refused)
		blk(tx("gov_param", "G", "key", "application/MaxApplications", "value", `"1"`)),
		blk(tx("send", "A1", "to", "NEW", "amount", "1")), // an account holding the smallest possible balance
	}
	depth := 2
	if tier == "thorough" {
		depth = 3
	}
	var out [][]BlockSpec
	var rec func(cur []BlockSpec)
	rec = func(cur []BlockSpec) {
		out = append(out, append([]BlockSpec{}, cur...))
		if len(cur) == depth {
			return
		}
		for _, m := range menu {
			rec(append(cur, m))
		}
	}
	rec(nil)
	return out
}

func cmpMaps(kind string, a, b map[string]string) string {
	var diffs []string
	for k, v := range a {
		if b[k] != v {
			diffs = append(diffs, fmt.Sprintf("%s %s: exported %q, re-imported %q", kind, k, v, b[k]))
		}
	}
	for k, v := range b {
		if _, ok := a[k]; !ok {
			diffs = append(diffs, fmt.Sprintf("%s %s: absent at export, re-imported %q", kind, k, v))
		}
	}
	sort.Strings(diffs)
	if len(diffs) > 4 {
		diffs = append(diffs[:4], fmt.Sprintf("... %d more", len(diffs)-4))
	}
	return strings.Join(diffs, "; ")
}

func init() {
	register(&Check{ID: "C43", QuickBud: 110 * time.Second, ThorBud: 20 * time.Minute,
		Run: func(c *ev.Ctx) {
			c.Rule = "for every history of up to D blocks over an 11-item menu (transfers to new accounts incl. one of a single uPOKT, node stake/unstake, app stake/unstake, DAO burn, parameter changes incl. a population limit lowered below the population, missed signatures) on the real application: export the application state at the final height (ExportAppState), start a NEW application from that export (InitChain in a fresh worker process) and compare accounts and balances (incl. module accounts), total supply, node records, application records, all parameters and pending claims of the two nodes. Non-trivial = history with at least one block"
			c.Assume("signing-info details that the export intentionally resets are not compared; the compared node fields are status, jailed, tokens, chains, url, output, delegators, key, unstaking time")
			p := getPool()
			hs := c43Histories(c.Tier)
			env := defaultEnv()
			if !chainSelfCheck(c, Job{Env: env, Blocks: hs[1], Want: []string{"balances", "claims"}}) {
				return
			}
			var wg sync.WaitGroup
			work := make(chan []BlockSpec, 64)
			var mu sync.Mutex
			var n int64
			for w := 0; w < p.n; w++ {
				wg.Add(1)
				go func() {
					defer wg.Done()
					for h := range work {
						if c.Expired() {
							continue
						}
						a := p.Exec(Job{Env: env, Blocks: h, Want: []string{"balances", "claims", "supply", "exportjson"}})
						if a.Err != "" {
							c.HarnessError("export job failed: " + a.Err)
							continue
						}
						for _, v := range a.Viols {
							if strings.HasPrefix(v.Sig, "export/") {
								c.Report("export/"+v.Sig, v.What, chainReplay{Spec: "export", Env: env, Blocks: h, Want: []string{"exportjson"}, Text: blocksText(h)})
							}
						}
						exp, _ := a.Obs["export"].(string)
						if exp == "" {
							continue
						}
						env2 := env
						env2.GenesisJSON = exp
						env2.Warmup = 0
						env2.Setup = nil
						b := p.Exec(Job{Env: env2, Want: []string{"balances", "claims", "supply"}})
						mu.Lock()
						n++
						mu.Unlock()
						rep := chainReplay{Spec: "export", Env: env, Blocks: h, Want: []string{"exportjson"}, Text: blocksText(h)}
						hist := fmt.Sprint(blocksText(h))
						if b.Err != "" {
							// the importing node terminated (os.Exit paths in InitGenesis): the export cannot be re-imported
							cls := "node-exits/other"
							msg := b.Err
							if i := strings.Index(msg, "APP-ERROR:"); i >= 0 {
								msg = msg[i:]
							}
							if strings.Contains(b.Err, "module account total does not equal") {
								cls = "node-exits/staking-pool-total-mismatch"
							}
							if strings.Contains(b.Err, "applications must be staked at genesis") {
								cls = "node-exits/unstaking-application-in-export"
							}
							c.Report("reimport/"+cls, fmt.Sprintf("a new node initialised from the state exported after %s terminates during InitChain: %s", hist, tail(msg, 400)), rep)
							continue
						}
						c.Distinct("export|" + a.StateKey)
						for _, v := range b.Viols {
							c.Report("reimport/"+v.Sig, "on the node initialised from the export after "+hist+": "+v.What, rep)
						}
						var diffs []string
						ba, bb := obsStrMap(a, "balances"), obsStrMap(b, "balances")
						// accounts other than the DAO module account first: a difference there is never part of the recorded
						// DAO finding, whatever happens to the DAO balance in the same export
						oa, ob := map[string]string{}, map[string]string{}
						// (an account without coins and a missing account are the same balance: the export leaves empty
						// accounts out and they are created again on first use)
						for k, v := range ba {
							if k != "module:dao" && v != "0" && v != "" {
								oa[k] = v
							}
						}
						for k, v := range bb {
							if k != "module:dao" && v != "0" && v != "" {
								ob[k] = v
							}
						}
						if d := cmpMaps("balance", oa, ob); d != "" {
							c.Report("reimport/balances", fmt.Sprintf("exported after %s: %s", hist, d), rep)
							diffs = append(diffs, d)
						}
						if d := cmpMaps("balance", map[string]string{"module:dao": ba["module:dao"]}, map[string]string{"module:dao": bb["module:dao"]}); d != "" {
							cls := "balances"
							if strings.Contains(d, "module:dao") && !strings.Contains(d, "balance A") {
								cls = "dao-balance"
								// the recorded defect mints the exported DAO balance a second time: exactly doubled
								x, ok1 := new(big.Int).SetString(ba["module:dao"], 10)
								y, ok2 := new(big.Int).SetString(bb["module:dao"], 10)
								if ok1 && ok2 && new(big.Int).Lsh(x, 1).Cmp(y) == 0 {
									cls = "dao-balance/doubled"
								}
							}
							c.Report("reimport/"+cls, fmt.Sprintf("exported after %s: %s", hist, d), rep)
							diffs = append(diffs, d)
						}
						if fmt.Sprint(a.Obs["supply"]) != fmt.Sprint(b.Obs["supply"]) {
							// the recorded defect adds exactly the staked node tokens, the staked application tokens and the
							// DAO balance a second time; any other difference is something else
							sa, _ := new(big.Int).SetString(fmt.Sprint(a.Obs["supply"]), 10)
							sb, _ := new(big.Int).SetString(fmt.Sprint(b.Obs["supply"]), 10)
							cls := "other-difference"
							if sa != nil && sb != nil {
								sum := new(big.Int)
								for _, kind := range []string{"nodes", "apps"} {
									for _, rec := range obsRecords(a, kind) {
										if t, ok := new(big.Int).SetString(rec["tokens"], 10); ok && rec["status"] == "2" {
											sum.Add(sum, t)
										}
									}
								}
								if d, ok := new(big.Int).SetString(ba["module:dao"], 10); ok {
									sum.Add(sum, d)
								}
								if new(big.Int).Sub(sb, sa).Cmp(sum) == 0 {
									cls = "staked-totals-and-dao-counted-twice"
								}
							}
							c.Report("reimport/supply/"+cls, fmt.Sprintf("exported after %s: total supply %v at export, %v on the re-imported node", hist, a.Obs["supply"], b.Obs["supply"]), rep)
						}
						na, nb := obsRecords(a, "nodes"), obsRecords(b, "nodes")
						for _, m := range []map[string]map[string]string{na, nb} {
							for _, rec := range m {
								delete(rec, "jailed_until")
								delete(rec, "waiting")
							}
						}
						flat := func(m map[string]map[string]string) map[string]string {
							o := map[string]string{}
							for k, v := range m {
								var fs []string
								for f, x := range v {
									fs = append(fs, f+"="+x)
								}
								sort.Strings(fs)
								o[k] = strings.Join(fs, " ")
							}
							return o
						}
						if d := cmpMaps("node", flat(na), flat(nb)); d != "" {
							// which fields differ decides the signature (a recorded finding about two fields does not
							// cover a difference in a third)
							fields := map[string]bool{}
							for name, ra := range na {
								rb := nb[name]
								if rb == nil {
									fields["record-missing"] = true
									continue
								}
								for f, x := range ra {
									if rb[f] != x {
										fields[f] = true
									}
								}
							}
							for name := range nb {
								if na[name] == nil {
									fields["record-added"] = true
								}
							}
							var fl []string
							for f := range fields {
								fl = append(fl, f)
							}
							sort.Strings(fl)
							c.Report("reimport/nodes/"+strings.Join(fl, "+"), fmt.Sprintf("exported after %s: %s", hist, d), rep)
						}
						if d := cmpMaps("application", flat(obsRecords(a, "apps")), flat(obsRecords(b, "apps"))); d != "" {
							c.Report("reimport/apps", fmt.Sprintf("exported after %s: %s", hist, d), rep)
						}
						if d := cmpMaps("parameter", obsStrMap(a, "params"), obsStrMap(b, "params")); d != "" {
							c.Report("reimport/params", fmt.Sprintf("exported after %s: %s", hist, d), rep)
						}
						if fmt.Sprint(a.Obs["claims"]) != fmt.Sprint(b.Obs["claims"]) {
							c.Report("reimport/claims", fmt.Sprintf("exported after %s: claims %v vs %v", hist, a.Obs["claims"], b.Obs["claims"]), rep)
						}
					}
				}()
			}
			for _, h := range hs {
				work <- h
			}
			close(work)
			wg.Wait()
			c.AddStates(n)
			c.AddTransitions(n * 2)
			c.AddTraces(n * 2)
			c.Sample(map[string]interface{}{"history": blocksText(hs[len(hs)/2]), "then": "ExportAppState -> new node InitChain -> compare"})
			c.BoundDone = fmt.Sprintf("%d histories exported and re-imported", n)
			getPool().Close()
		},
		Replay: func(raw json.RawMessage) (string, error) {
			var r chainReplay
			if err := json.Unmarshal(raw, &r); err != nil {
				return "", err
			}
			a := runJob(Job{Env: r.Env, Blocks: r.Blocks, Want: []string{"balances", "supply", "exportjson"}})
			if a.Err != "" {
				return fmt.Sprint(r.Text), fmt.Errorf("export job: %s", a.Err)
			}
			exp, _ := a.Obs["export"].(string)
			env2 := r.Env
			env2.GenesisJSON, env2.Warmup, env2.Setup = exp, 0, nil
			// the importing node may call os.Exit: run it in a worker process
			p := newChainPool(1)
			defer p.Close()
			b := p.Exec(Job{Env: env2, Want: []string{"balances", "supply"}})
			if b.Err != "" {
				return fmt.Sprint(r.Text), fmt.Errorf("re-import terminates: %s", tail(b.Err, 500))
			}
			var a2 JobResult
			bz, _ := json.Marshal(a)
			_ = json.Unmarshal(bz, &a2)
			var diffs []string
			if d := cmpMaps("balance", obsStrMap(a2, "balances"), obsStrMap(b, "balances")); d != "" {
				diffs = append(diffs, d)
			}
			if fmt.Sprint(a2.Obs["supply"]) != fmt.Sprint(b.Obs["supply"]) {
				diffs = append(diffs, fmt.Sprintf("supply %v vs %v", a2.Obs["supply"], b.Obs["supply"]))
			}
			for _, v := range b.Viols {
				diffs = append(diffs, v.What)
			}
			if len(diffs) > 0 {
				return fmt.Sprint(r.Text), fmt.Errorf("re-imported state differs: %s", strings.Join(diffs, " | "))
			}
			return fmt.Sprint(r.Text), nil
		},
	})
}
