package checks

import (
	"encoding/json"
	"fmt"
	"strconv"
	"sync"
	"time"

	sdk "github.com/pokt-network/pocket-core/types"
	appsTypes "github.com/pokt-network/pocket-core/x/apps/types"
	pocketTypes "github.com/pokt-network/pocket-core/x/pocketcore/types"
	abci "github.com/tendermint/tendermint/abci/types"

	"verif/internal/ev"
)

func init() {
	// custom-query probes; "height" is relative to the latest committed height (0 = latest, -1 = one before, ...)
	q := func(route string, data func() []byte) func(r *replica, p Probe) string {
		return func(r *replica, p Probe) string {
			rel, _ := strconv.ParseInt(p.Args["height"], 10, 64)
			h := r.height + rel
			if h < 1 {
				h = 1
			}
			var d []byte
			if data != nil {
				d = data()
			}
			res := r.app.Query(abci.RequestQuery{Path: route, Data: d, Height: h})
			return fmt.Sprintf("%s@%d code=%d len=%d", route, h, res.Code, len(res.Value))
		}
	}
	addrJSON := func(role string) func() []byte {
		return func() []byte {
			bz, err := appsTypes.ModuleCdc.MarshalJSON(appsTypes.QueryAppParams{Address: caddr(role)})
			if err != nil {
				panic(err)
			}
			return bz
		}
	}
	chainProbes["q_app"] = q("/custom/application/application", addrJSON("P1"))
	chainProbes["q_apps"] = q("/custom/application/applications", func() []byte { return []byte(`{"page":1,"per_page":10}`) })
	chainProbes["q_node"] = q("/custom/pos/validator", addrJSON("N1"))
	chainProbes["q_node2"] = q("/custom/pos/validator", addrJSON("N2"))
	chainProbes["q_nodes"] = q("/custom/pos/validators", func() []byte { return []byte(`{"page":1,"per_page":10}`) })
	chainProbes["q_acct"] = q("/custom/pos/account", addrJSON("A1"))
	chainProbes["q_supply"] = q("/custom/pos/total_supply", nil)
	chainProbes["q_params"] = q("/custom/pocketcore/parameters", nil)
	chainProbes["q_dao"] = q("/custom/gov/dao", nil)
	// the dispatch QUERY (ABCI query route of the pocketcore module): answering it fills the node's session cache
	chainProbes["q_dispatch"] = q("/custom/pocketcore/dispatch", func() []byte {
		bz, err := pocketTypes.ModuleCdc.MarshalJSON(pocketTypes.QueryDispatchParams{SessionHeader: pocketTypes.SessionHeader{ApplicationPubKey: rawPub("P1"), Chain: "0001"}})
		if err != nil {
			panic(err)
		}
		return bz
	})
	chainProbes["q_dispatch_old"] = chainProbes["q_dispatch"] // the same query with an older height (own name: own signature)
	chainProbes["q_store"] = func(r *replica, p Probe) string {
		rel, _ := strconv.ParseInt(p.Args["height"], 10, 64)
		h := r.height + rel
		key := append([]byte{0x21}, caddr("N1")...) // a node record
		res := r.app.Query(abci.RequestQuery{Path: "/store/pos/key", Data: key, Height: h, Prove: p.Args["prove"] == "true"})
		return fmt.Sprintf("store@%d code=%d len=%d", h, res.Code, len(res.Value))
	}
}

// chainDiffCfg: differential search - every base history x every insertion point x every probe; the
// probed replica must produce the same block results as the silent one.
type chainDiffCfg struct {
	Name    string
	Env     EnvCfg
	Menu    []BlockSpec
	Depth   int
	Probes  []Probe
	Phases  []string // pre | mid | post
	MaxIns  int      // 1 or 2 inserted calls
	Restart bool     // also try "node restarts before the block that follows the probe"
}

type diffReplay struct {
	Spec   string      `json:"spec"`
	Env    EnvCfg      `json:"env"`
	Silent []BlockSpec `json:"silent_blocks"`
	Probed []BlockSpec `json:"probed_blocks"`
	Text   []string    `json:"probed_history"`
}

func stripProbes(bs []BlockRes) []BlockRes {
	out := make([]BlockRes, len(bs))
	for i, b := range bs {
		b.Probes = nil
		out[i] = b
	}
	return out
}

func diffBlocks(a, b []BlockRes) string {
	for i := range a {
		if i >= len(b) {
			return fmt.Sprintf("block %d missing", i)
		}
		x, y := a[i], b[i]
		if x.AppHash != y.AppHash {
			// find first differing detail for the message
			d := ""
			for j := range x.Txs {
				if j < len(y.Txs) && (x.Txs[j].Code != y.Txs[j].Code || x.Txs[j].Data != y.Txs[j].Data) {
					d = fmt.Sprintf("; tx %d result code %d vs %d", j, x.Txs[j].Code, y.Txs[j].Code)
				}
			}
			return fmt.Sprintf("app hash after block at height %d differs (%s.. vs %s..)%s", x.Height, x.AppHash[:12], y.AppHash[:12], d)
		}
		for j := range x.Txs {
			if j < len(y.Txs) && (x.Txs[j].Code != y.Txs[j].Code || x.Txs[j].Data != y.Txs[j].Data) {
				return fmt.Sprintf("height %d tx %d: result code %d vs %d", x.Height, j, x.Txs[j].Code, y.Txs[j].Code)
			}
		}
		if fmt.Sprint(x.ValUpdates) != fmt.Sprint(y.ValUpdates) {
			return fmt.Sprintf("height %d: validator updates %v vs %v", x.Height, x.ValUpdates, y.ValUpdates)
		}
	}
	return ""
}

func chainDiffExplore(c *ev.Ctx, cfg *chainDiffCfg) {
	p := getPool()
	if !chainSelfCheck(c, Job{Env: cfg.Env, Blocks: []BlockSpec{cfg.Menu[0]}}) {
		return
	}
	// enumerate base histories of exactly Depth blocks (shorter ones are prefixes: their divergences show up as
	// a differing block result at that prefix position)
	var hists [][]int
	var rec func(cur []int)
	rec = func(cur []int) {
		if len(cur) == cfg.Depth {
			hists = append(hists, append([]int{}, cur...))
			return
		}
		for i := range cfg.Menu {
			rec(append(cur, i))
		}
	}
	rec(nil)
	type task struct {
		hist []int
	}
	work := make(chan task, 64)
	var wg sync.WaitGroup
	var mu sync.Mutex
	var nSilent, nProbed int64
	complete := true
	for w := 0; w < p.n; w++ {
		wg.Add(1)
		go func() {
			defer wg.Done()
			for t := range work {
				if c.Expired() {
					mu.Lock()
					complete = false
					mu.Unlock()
					continue
				}
				base := make([]BlockSpec, len(t.hist))
				for i, m := range t.hist {
					base[i] = cfg.Menu[m]
				}
				silent := p.Exec(Job{Env: cfg.Env, Blocks: base})
				if silent.Err != "" {
					c.HarnessError(cfg.Name + ": silent job failed: " + silent.Err)
					continue
				}
				mu.Lock()
				nSilent++
				mu.Unlock()
				ref := stripProbes(silent.Blocks)
				type ins struct {
					pos   int
					phase string
					probe Probe
				}
				var singles []ins
				for pos := range base {
					for _, ph := range cfg.Phases {
						for _, pr := range cfg.Probes {
							singles = append(singles, ins{pos, ph, pr})
						}
					}
				}
				apply := func(list []ins, restartAfter bool) []BlockSpec {
					out := make([]BlockSpec, len(base))
					copy(out, base)
					for _, in := range list {
						b := out[in.pos]
						switch in.phase {
						case "pre":
							b.OffChain = append(append([]Probe{}, b.OffChain...), in.probe)
						case "tx0":
							b.AfterTx0 = append(append([]Probe{}, b.AfterTx0...), in.probe)
						case "mid":
							b.MidChain = append(append([]Probe{}, b.MidChain...), in.probe)
						case "post":
							b.PostChain = append(append([]Probe{}, b.PostChain...), in.probe)
						}
						out[in.pos] = b
					}
					return out
				}
				run := func(list []ins) {
					probed := apply(list, false)
					res := p.Exec(Job{Env: cfg.Env, Blocks: probed})
					mu.Lock()
					nProbed++
					mu.Unlock()
					if res.Err != "" {
						c.HarnessError(cfg.Name + ": probed job failed: " + res.Err + " " + fmt.Sprint(blocksText(probed)))
						return
					}
					kinds := ""
					for _, in := range list {
						kinds += "+" + in.probe.Kind
						if in.probe.Tx != nil {
							kinds += ":" + in.probe.Tx.Kind
							if in.probe.Tx.Mutate != "" {
								kinds += ":" + in.probe.Tx.Mutate
							}
						}
					}
					c.Outcome(cfg.Name + ":probe" + kinds)
					if d := diffBlocks(ref, stripProbes(res.Blocks)); d != "" {
						sig := cfg.Name + "/diverges-after" + kinds
						c.Report(sig, fmt.Sprintf("a node that made the off-chain call(s) %s diverges from a node that did not: %s  [history with calls: %v]", kinds[1:], d, blocksText(probed)),
							diffReplay{Spec: cfg.Name, Env: cfg.Env, Silent: base, Probed: probed, Text: blocksText(probed)})
					}
					c.Distinct(cfg.Name + "|" + fmt.Sprint(t.hist) + "|" + fmt.Sprint(list))
				}
				for _, s := range singles {
					run([]ins{s})
				}
				if cfg.MaxIns >= 2 {
					for i := range singles {
						for j := i + 1; j < len(singles); j++ {
							if singles[i].probe.Kind == singles[j].probe.Kind && singles[i].pos == singles[j].pos {
								continue
							}
							run([]ins{singles[i], singles[j]})
						}
					}
				}
			}
		}()
	}
	for _, h := range hists {
		work <- task{h}
	}
	close(work)
	wg.Wait()
	c.AddStates(nSilent)
	c.AddTransitions(nProbed)
	c.AddTraces(nSilent + nProbed)
	c.Extra["silent_replicas"] = nSilent
	c.Extra["probed_replicas"] = nProbed
	if !complete {
		c.Cap(cfg.Name + " stopped by the time budget")
	}
	c.Sample(map[string]interface{}{"spec": cfg.Name, "base_history": blocksText([]BlockSpec{cfg.Menu[0], cfg.Menu[len(cfg.Menu)-1]}), "inserted": cfg.Probes[0].String(), "oracle": "block results, validator updates and app hashes identical to the silent replica"})
	c.BoundDone += fmt.Sprintf("%s: %d base histories of depth %d x %d probes x %d phases x positions, up to %d inserted calls: %d probed replicas, complete=%v; ", cfg.Name, len(hists), cfg.Depth, len(cfg.Probes), len(cfg.Phases), cfg.MaxIns, nProbed, complete)
}

func diffReplayFn(raw json.RawMessage) (string, error) {
	var r diffReplay
	if err := json.Unmarshal(raw, &r); err != nil {
		return "", err
	}
	a := runJob(Job{Env: r.Env, Blocks: r.Silent})
	b := runJob(Job{Env: r.Env, Blocks: r.Probed})
	if a.Err != "" || b.Err != "" {
		return fmt.Sprint(r.Text), fmt.Errorf("harness error: %s %s", a.Err, b.Err)
	}
	if d := diffBlocks(stripProbes(a.Blocks), stripProbes(b.Blocks)); d != "" {
		return fmt.Sprint(r.Text), fmt.Errorf("probed replica diverges: %s", d)
	}
	return fmt.Sprint(r.Text), nil
}

func txp(t TxSpec) *TxSpec { return &t }

func c11Probes() []Probe {
	send := tx("send", "A1", "to", "A2", "amount", "7")
	bad := send
	bad.Mutate = "sig-flip-middle"
	stake := tx("node_stake", "N3", "value", "1000000", "chains", "0001")
	unsignedStake := stake
	unsignedStake.Mutate = "sig-empty"
	appStake := tx("app_stake", "P2", "value", "1000000")
	param := tx("gov_param", "G", "key", "pos/MaxValidators", "value", `"1"`)
	upgrade := tx("gov_upgrade", "G", "height", "6", "version", "0.11.0", "features", "REDUP:50")
	return []Probe{
		{Kind: "simulate", Tx: txp(upgrade)},
		{Kind: "checktx", Tx: txp(send)},
		{Kind: "checktx", Tx: txp(bad)},
		{Kind: "checktx", Tx: txp(stake)},
		{Kind: "simulate", Tx: txp(send)},
		{Kind: "simulate", Tx: txp(bad)},
		{Kind: "simulate", Tx: txp(unsignedStake)},
		{Kind: "simulate", Tx: txp(appStake)},
		{Kind: "simulate", Tx: txp(param)},
		{Kind: "q_store", Args: map[string]string{"height": "0", "prove": "true"}},
		{Kind: "q_store", Args: map[string]string{"height": "-1", "prove": "false"}},
		{Kind: "q_node", Args: map[string]string{"height": "0"}},
		{Kind: "q_nodes", Args: map[string]string{"height": "-2"}},
		{Kind: "q_app", Args: map[string]string{"height": "-1"}},
		{Kind: "q_acct", Args: map[string]string{"height": "0"}},
		{Kind: "q_supply", Args: map[string]string{"height": "-1"}},
	}
}

func init() {
	register(&Check{ID: "C11", QuickBud: 110 * time.Second, ThorBud: 30 * time.Minute,
		Run: func(c *ev.Ctx) {
			c.Rule = "differential explicit-state search on the real PocketCoreApp: every base history of D blocks over the menu {send, node stake, app stake, param change, empty} x every block position x every phase (before BeginBlock / between DeliverTx and EndBlock / after Commit) x every off-chain call (CheckTx of valid/invalid/state-changing txs, /app/simulate of valid, bad-signature, unsigned and state-changing txs, store queries with and without proof, custom queries at the latest and older heights, the dispatch query inserted into jail/edit/claim histories); the replica that made the call must report exactly the same per-transaction results, validator updates and app hash for every block as the silent replica. Non-trivial = distinct (history, insertion)"
			c.Assume("off-chain calls may change node-local non-consensus data; only block results, validator updates and app hashes are compared")
			menu := []BlockSpec{blk(tx("send", "A1", "to", "A2", "amount", "7")), blk(tx("node_stake", "N3", "value", "1000000", "chains", "0001")), blk(tx("app_stake", "P2", "value", "1000000")), blk(tx("gov_param", "G", "key", "pos/MaxValidators", "value", `"1"`)), {}}
			cfg := &chainDiffCfg{Name: "readonly", Env: defaultEnv(), Menu: menu, Depth: 2, Probes: c11Probes(), Phases: []string{"pre", "mid", "post"}, MaxIns: 1}
			if c.Tier == "thorough" {
				cfg.Depth, cfg.MaxIns = 3, 2
			}
			chainDiffExplore(c, cfg)
			// queries at older heights followed by transactions on the queried object (state changes follow reads)
			editApp := blk(tx("app_stake", "P1", "value", "3000000", "chains", "0001+0002"))
			editNode := blk(tx("node_stake", "N2", "node", "N2", "value", "3000000", "output", "N2", "chains", "0002"))
			qmenu := []BlockSpec{editApp, blk(tx("app_unstake", "P1")), editNode, blk(tx("node_unstake", "N2")), {}}
			qcfg := &chainDiffCfg{Name: "readonly-queries", Env: defaultEnv(), Menu: qmenu, Depth: cfg.Depth, Probes: c13Probes(), Phases: []string{"pre", "mid", "post"}, MaxIns: 1}
			chainDiffExplore(c, qcfg)
			// queries, CheckTx and simulations that arrive between two DeliverTx of the block being executed
			transfer := tx("app_stake", "P1", "app", "NEW", "value", "0", "chains", "")
			imenu := []BlockSpec{blk(transfer, tx("app_unstake", "P1")), blk(tx("app_unstake", "P1"), tx("app_stake", "P1", "value", "3000000", "chains", "0001")),
				blk(tx("node_unstake", "N2"), tx("node_stake", "N2", "node", "N2", "value", "3000000", "output", "N2", "chains", "0002")), {}}
			// (the ante handler looks the signer's application up for transfer messages: a CheckTx or simulation of a
			// transfer between two delivered transfers of the same application reads it through the node-local cache)
			transfer2 := tx("app_stake", "P1", "app", "A2", "value", "0", "chains", "")
			transfer3 := TxSpec{Kind: "app_stake", Signer: "P1", Args: map[string]string{"app": "A3", "value": "0", "chains": ""}}
			imenu = append(imenu, blk(transfer, transfer2), blk(tx("app_unstake", "P1"), transfer2))
			iprobes := []Probe{{Kind: "q_app", Args: map[string]string{"height": "0"}}, {Kind: "q_app", Args: map[string]string{"height": "-1"}}, {Kind: "q_node2", Args: map[string]string{"height": "0"}},
				{Kind: "checktx", Tx: &TxSpec{Kind: "app_unstake", Signer: "P1"}}, {Kind: "simulate", Tx: &TxSpec{Kind: "app_unstake", Signer: "P1"}},
				{Kind: "checktx", Tx: &transfer3}, {Kind: "simulate", Tx: &transfer3}}
			icfg := &chainDiffCfg{Name: "readonly-inblock", Env: defaultEnv(), Menu: imenu, Depth: 2, Probes: iprobes, Phases: []string{"tx0"}, MaxIns: 1}
			chainDiffExplore(c, icfg)
			// the dispatch query fills the session cache that claim validation reads: histories in which a servicer is
			// jailed or edits its stake after the query and then claims (two seats, and one seat for two nodes)
			senv := claimsEnv()
			smenu := []BlockSpec{{}, {Absent: []string{"N1"}}, blk(tx("claim", "N1", "session", "cur-1")), blk(tx("claim", "N2", "session", "cur-1")),
				blk(tx("node_stake", "N2", "node", "N2", "value", "2000000", "output", "N2", "chains", "0002"))}
			// governance changes the number of session seats in the middle of a session
			smenu = append(smenu, blk(tx("gov_param", "G", "from", "G", "key", "pocketcore/SessionNodeCount", "value", `"1"`)))
			dq := []Probe{{Kind: "q_dispatch", Args: map[string]string{"height": "0"}}}
			// the same query with an older height (own, smaller exploration)
			dqOld := []Probe{{Kind: "q_dispatch_old", Args: map[string]string{"height": "-1"}}, {Kind: "q_dispatch_old", Args: map[string]string{"height": "-2"}}}
			chainDiffExplore(c, &chainDiffCfg{Name: "readonly-dispatch-query-older-height", Env: senv, Menu: []BlockSpec{smenu[0], smenu[2], smenu[3], smenu[4]}, Depth: 4, Probes: dqOld, Phases: []string{"pre", "post"}, MaxIns: 1})
			chainDiffExplore(c, &chainDiffCfg{Name: "readonly-dispatch-query", Env: senv, Menu: smenu, Depth: 4, Probes: dq, Phases: []string{"pre", "post"}, MaxIns: 1})
			senv1 := senv
			senv1.SessionNodeCount = 1
			chainDiffExplore(c, &chainDiffCfg{Name: "readonly-dispatch-query-one-seat", Env: senv1, Menu: smenu[:4], Depth: 4, Probes: dq, Phases: []string{"pre", "post"}, MaxIns: 1})
			getPool().Close()
		},
		Replay: diffReplayFn,
	})
}

func c13Probes() []Probe {
	return []Probe{
		{Kind: "q_app", Args: map[string]string{"height": "0"}},
		{Kind: "q_app", Args: map[string]string{"height": "-1"}},
		{Kind: "q_app", Args: map[string]string{"height": "-2"}},
		{Kind: "q_apps", Args: map[string]string{"height": "-2"}},
		{Kind: "q_node", Args: map[string]string{"height": "-1"}},
		{Kind: "q_node2", Args: map[string]string{"height": "-2"}},
		{Kind: "q_nodes", Args: map[string]string{"height": "-1"}},
		{Kind: "q_acct", Args: map[string]string{"height": "-2"}},
	}
}

func init() {
	register(&Check{ID: "C13", QuickBud: 150 * time.Second, ThorBud: 30 * time.Minute,
		Run: func(c *ev.Ctx) {
			c.Rule = "differential explicit-state search on the real PocketCoreApp: every base history of D blocks over a menu in which state changes follow reads (application edit-stake / transfer / unstake, node edit-stake / unstake, each also with a node restart before the block so that the object caches are cold) x every position x {before BeginBlock, after Commit} x every off-chain read (application / node / account queries at the latest and at older heights); the replica that served the call must report the same per-transaction results, validator updates and app hash for every block as the silent replica. Non-trivial = distinct (history, insertion)"
			c.Assume("a second search covers the servicer-side calls: dispatch and relay (which fill the session cache that claim validation consults) inserted into histories of jailing, edit-stake and claims")
			re := func(b BlockSpec) BlockSpec { b.Restart = true; return b }
			editApp := blk(tx("app_stake", "P1", "value", "3000000", "chains", "0001+0002"))
			editNode := blk(tx("node_stake", "N2", "node", "N2", "value", "3000000", "output", "N2", "chains", "0002"))
			menu := []BlockSpec{editApp, blk(tx("app_unstake", "P1")), re(blk(tx("app_unstake", "P1"))), editNode, blk(tx("node_unstake", "N2")), re(blk(tx("node_unstake", "N2"))), re(BlockSpec{}), {}}
			cfg := &chainDiffCfg{Name: "offchain", Env: defaultEnv(), Menu: menu, Depth: 2, Probes: c13Probes(), Phases: []string{"pre", "post"}, MaxIns: 1}
			if c.Tier == "thorough" {
				cfg.Depth, cfg.MaxIns = 3, 2
			}
			chainDiffExplore(c, cfg)
			// servicer-side calls: dispatch and relay fill the node's session cache, which claim validation consults
			env := claimsEnv()
			smenu := []BlockSpec{{}, {Absent: []string{"N1"}}, blk(tx("claim", "N1", "session", "cur-1")), blk(tx("claim", "N2", "session", "cur-1")),
				blk(tx("node_stake", "N2", "node", "N2", "value", "2000000", "output", "N2", "chains", "0002"))}
			if c.Tier == "thorough" {
				smenu = append(smenu, blk(tx("node_unjail", "N1", "node", "N1", "as", "N1")), blk(tx("node_unstake", "N2")), blk(tx("app_stake", "P1", "value", "2000000", "chains", "0002")))
			}
			// calls that arrive while a block is being executed (between two DeliverTx of the same block)
			transfer := tx("app_stake", "P1", "app", "NEW", "value", "0", "chains", "")
			imenu := []BlockSpec{blk(transfer, tx("app_unstake", "P1")), blk(tx("app_unstake", "P1"), tx("app_stake", "P1", "value", "3000000", "chains", "0001")),
				blk(tx("node_unstake", "N2"), tx("node_stake", "N2", "node", "N2", "value", "3000000", "output", "N2", "chains", "0002")), blk(tx("app_stake", "P1", "value", "3000000", "chains", "0002"), tx("app_unstake", "P1")), {}}
			iprobes := []Probe{{Kind: "q_app", Args: map[string]string{"height": "0"}}, {Kind: "q_app", Args: map[string]string{"height": "-1"}}, {Kind: "q_node2", Args: map[string]string{"height": "0"}}, {Kind: "q_apps", Args: map[string]string{"height": "0"}}}
			icfg := &chainDiffCfg{Name: "offchain-inblock", Env: defaultEnv(), Menu: imenu, Depth: 2, Probes: iprobes, Phases: []string{"pre", "tx0", "mid", "post"}, MaxIns: 1}
			chainDiffExplore(c, icfg)
			sprobes := []Probe{{Kind: "dispatch", Args: map[string]string{"app": "P1", "chain": "0001"}}, {Kind: "relay", Args: map[string]string{"entropy": "5"}}}
			// governance changes the number of session seats in the middle of a session (two seats -> one)
			seatMenu := append(append([]BlockSpec{}, smenu[:4]...), blk(tx("gov_param", "G", "from", "G", "key", "pocketcore/SessionNodeCount", "value", `"1"`)))
			chainDiffExplore(c, &chainDiffCfg{Name: "offchain-sessions-seat-change", Env: env, Menu: seatMenu, Depth: 4, Probes: sprobes[:1], Phases: []string{"pre", "post"}, MaxIns: 1})
			scfg := &chainDiffCfg{Name: "offchain-sessions", Env: env, Menu: smenu, Depth: 4, Probes: sprobes, Phases: []string{"pre", "post"}, MaxIns: 1}
			chainDiffExplore(c, scfg)
			// one session seat for two eligible nodes: who may claim depends on the session key, so a session that claim
			// validation regenerates on a cold cache must be the one dispatch handed out (and cached) earlier
			env1 := env
			env1.SessionNodeCount = 1
			s1cfg := &chainDiffCfg{Name: "offchain-sessions-one-seat", Env: env1, Menu: smenu[:4], Depth: 4, Probes: append(append([]Probe{}, sprobes[:1]...), Probe{Kind: "q_dispatch", Args: map[string]string{"height": "0"}}), Phases: []string{"pre", "post"}, MaxIns: 1}
			chainDiffExplore(c, s1cfg)
			// a young chain (heights 2..6): the height-gated branches of edit-stake, jailing and unstaking that mainnet
			// left behind long ago are still what a new network executes
			envY := env
			envY.BaseHeight, envY.FeatureHeight, envY.Genesis, envY.Setup = 0, 70000, "legacy-nodes", nil
			ycfg := &chainDiffCfg{Name: "offchain-sessions-young-chain", Env: envY, Menu: []BlockSpec{smenu[0], smenu[2], smenu[3], blk(tx("node_stake", "N2", "node", "N2", "value", "2000000", "chains", "0002", "legacy", "1"))}, Depth: 4, Probes: sprobes[:1], Phases: []string{"pre", "post"}, MaxIns: 1}
			chainDiffExplore(c, ycfg)
			getPool().Close()
		},
		Replay: diffReplayFn,
	})
}

var _ = sdk.ZeroInt
