//go:build verif && !vsched

package checks

import (
	"time"

	"verif/internal/ev"
)

// C34 needs the build overlay that turns the cache mutex into scheduling points; check.sh builds it that way.
func init() {
	register(&Check{ID: "C34", QuickBud: time.Minute, ThorBud: time.Minute,
		Run: func(c *ev.Ctx) {
			c.HarnessError("C34 must be built through check.sh (tags 'verif vsched' + the vsync overlay)")
		},
		Replay: evalReplayFn,
	})
}
