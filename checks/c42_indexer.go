package checks

import (
	"bytes"
	"context"
	"encoding/hex"
	"encoding/json"
	"fmt"
	"runtime"
	"sort"
	"sync"
	"time"

	sdk "github.com/pokt-network/pocket-core/types"
	abci "github.com/tendermint/tendermint/abci/types"
	tmquery "github.com/tendermint/tendermint/libs/pubsub/query"
	"github.com/tendermint/tendermint/state/txindex"
	tmtypes "github.com/tendermint/tendermint/types"
	dbm "github.com/tendermint/tm-db"

	"verif/internal/ev"
)

// tx kinds of the alphabet: (signer, recipient, result class)
type c42Kind struct {
	Signer, Recipient string // "" = none
	Codespace         string
	Code              uint32
}

var c42Kinds = []c42Kind{
	{"a", "c", "", 0},      // plain transfer
	{"a", "", "", 0},       // no recipient
	{"b", "a", "", 0},      // a as recipient
	{"a", "c", "auth", 4},  // ante failure: not indexed
	{"b", "a", "auth", 10}, // auth failure past the ante range: indexed
	{"c", "c", "pos", 101}, // failed message, self-addressed: indexed
	{"a", "b", "sdk", 4},   // same code, other codespace: indexed
}

func c42Addr(n string) []byte {
	if n == "" {
		return nil
	}
	return bytes.Repeat([]byte{n[0]}, 20)
}

type c42Tx struct {
	Height int64
	Index  uint32
	Kind   int
}

func (t c42Tx) bytes() []byte { return []byte(fmt.Sprintf("tx-%d-%d-%d", t.Height, t.Index, t.Kind)) }
func (t c42Tx) result() *tmtypes.TxResult {
	k := c42Kinds[t.Kind]
	return &tmtypes.TxResult{Height: t.Height, Index: t.Index, Tx: t.bytes(), Result: abci.ResponseDeliverTx{Code: k.Code, Codespace: k.Codespace, Signer: c42Addr(k.Signer), Recipient: c42Addr(k.Recipient), Log: "l"}}
}
func (t c42Tx) indexed() bool {
	k := c42Kinds[t.Kind]
	return !(k.Codespace == "auth" && k.Code < 10)
}

type c42Hist struct {
	Blocks  [][]int `json:"blocks"` // per block: kinds of its transactions
	Heights []int64 `json:"heights"`
	Batch   bool    `json:"add_batch"`
}

func (h c42Hist) txs() []c42Tx {
	var out []c42Tx
	for bi, b := range h.Blocks {
		for i, k := range b {
			out = append(out, c42Tx{h.Heights[bi], uint32(i), k})
		}
	}
	return out
}

// parsed queries are cached per goroutine (parsing dominates otherwise); AddPage replaces the page each time
type c42QCache map[string]*tmquery.Query

func c42Search(ix *sdk.TransactionIndexer, qc c42QCache, q string, perPage, page int, order string) ([]*tmtypes.TxResult, int, error) {
	qq := qc[q]
	if qq == nil {
		var err error
		qq, err = tmquery.New(q)
		if err != nil {
			return nil, 0, err
		}
		qc[q] = qq
	}
	skip := (page - 1) * perPage
	if skip < 0 {
		skip = 0
	}
	qq.AddPage(perPage, skip, order)
	return ix.Search(context.Background(), qq)
}

func c42Ident(r *tmtypes.TxResult) string {
	if r == nil {
		return "<nil>"
	}
	return fmt.Sprintf("%d/%d", r.Height, r.Index)
}

// c42Check1 indexes one history and runs every query; returns (signature, explanation).
func c42Check1(h c42Hist, db dbm.DB, evals *int64, qc c42QCache) (string, string) {
	ix := sdk.NewTransactionIndexer(db)
	all := h.txs()
	if h.Batch {
		for bi := range h.Blocks {
			b := txindex.NewBatch(int64(len(h.Blocks[bi])))
			for _, t := range all {
				if t.Height == h.Heights[bi] {
					if err := b.Add(t.result()); err != nil {
						return "harness", err.Error()
					}
				}
			}
			if err := ix.AddBatch(b); err != nil {
				return "index/add-batch-error", err.Error()
			}
		}
	} else {
		for _, t := range all {
			if err := ix.Index(t.result()); err != nil {
				return "index/index-error", err.Error()
			}
		}
	}
	// lookup by hash
	for _, t := range all {
		*evals++
		got, err := ix.Get(tmtypes.Tx(t.bytes()).Hash())
		if err != nil {
			return "get/error", fmt.Sprintf("Get(%d/%d): %v", t.Height, t.Index, err)
		}
		if t.indexed() {
			want := t.result()
			if got == nil || got.Height != want.Height || got.Index != want.Index || !bytes.Equal(got.Tx, want.Tx) || got.Result.Code != want.Result.Code || got.Result.Codespace != want.Result.Codespace ||
				!bytes.Equal(got.Result.Signer, want.Result.Signer) || !bytes.Equal(got.Result.Recipient, want.Result.Recipient) || got.Result.Log != want.Result.Log {
				return "get/stored-result-differs", fmt.Sprintf("Get by hash of transaction %d/%d returned %+v, stored %+v", t.Height, t.Index, got, want)
			}
		} else if got != nil {
			return "get/ante-failure-indexed", fmt.Sprintf("transaction %d/%d failed in the ante handler but is returned by hash", t.Height, t.Index)
		}
		// search by hash
		rs, total, err := c42Search(ix, c42QCache{}, fmt.Sprintf("tx.hash='%s'", hex.EncodeToString(tmtypes.Tx(t.bytes()).Hash())), 30, 1, "desc")
		if t.indexed() && (err != nil || total != 1 || len(rs) != 1 || c42Ident(rs[0]) != c42Ident(t.result())) {
			return "search-hash/mismatch", fmt.Sprintf("search by hash of %d/%d: results %v total %d err %v", t.Height, t.Index, rs, total, err)
		}
	}
	type qdef struct {
		class, q string
		match    func(t c42Tx) bool
	}
	var qs []qdef
	hs := append([]int64{}, h.Heights...)
	hs = append(hs, 7, 12345)
	for _, ht := range hs {
		ht := ht
		qs = append(qs, qdef{"height", fmt.Sprintf("tx.height=%d", ht), func(t c42Tx) bool { return t.Height == ht }})
	}
	for _, a := range []string{"a", "b", "c", "d"} {
		a := a
		ah := hex.EncodeToString(c42Addr(a))
		qs = append(qs, qdef{"signer", fmt.Sprintf("tx.signer='%s'", ah), func(t c42Tx) bool { return c42Kinds[t.Kind].Signer == a }})
		qs = append(qs, qdef{"recipient", fmt.Sprintf("tx.recipient='%s'", ah), func(t c42Tx) bool { return c42Kinds[t.Kind].Recipient == a }})
		for _, ht := range h.Heights {
			ht := ht
			qs = append(qs, qdef{"signer-at-height", fmt.Sprintf("tx.signer='%s' AND tx.height=%d", ah, ht), func(t c42Tx) bool { return c42Kinds[t.Kind].Signer == a && t.Height == ht }})
			qs = append(qs, qdef{"recipient-at-height", fmt.Sprintf("tx.recipient='%s' AND tx.height=%d", ah, ht), func(t c42Tx) bool { return c42Kinds[t.Kind].Recipient == a && t.Height == ht }})
		}
	}
	for _, qd := range qs {
		var want []c42Tx
		for _, t := range all {
			if t.indexed() && qd.match(t) {
				want = append(want, t)
			}
		}
		sort.Slice(want, func(i, j int) bool {
			if want[i].Height != want[j].Height {
				return want[i].Height < want[j].Height
			}
			return want[i].Index < want[j].Index
		})
		for _, order := range []string{"asc", "desc"} {
			exp := make([]string, len(want))
			for i, t := range want {
				if order == "asc" {
					exp[i] = fmt.Sprintf("%d/%d", t.Height, t.Index)
				} else {
					exp[len(want)-1-i] = fmt.Sprintf("%d/%d", t.Height, t.Index)
				}
			}
			for perPage := 1; perPage <= len(want)+1; perPage++ {
				var got []string
				for page := 1; page <= len(want)+2; page++ {
					*evals++
					rs, total, err := c42Search(ix, qc, qd.q, perPage, page, order)
					desc := fmt.Sprintf("query %q sort %s page %d of size %d", qd.q, order, page, perPage)
					if err != nil {
						return "search-" + qd.class + "/error", desc + ": " + err.Error()
					}
					if total != len(want) {
						return "search-" + qd.class + "/total", desc + fmt.Sprintf(": total %d, %d transactions match (%v)", total, len(want), exp)
					}
					lo := (page - 1) * perPage
					hi := lo + perPage
					if lo > len(exp) {
						lo = len(exp)
					}
					if hi > len(exp) {
						hi = len(exp)
					}
					var ids []string
					for _, r := range rs {
						ids = append(ids, c42Ident(r))
					}
					if fmt.Sprint(ids) != fmt.Sprint(exp[lo:hi]) {
						sameSet := func() bool {
							x := append([]string{}, ids...)
							y := append([]string{}, exp[lo:hi]...)
							sort.Strings(x)
							sort.Strings(y)
							return fmt.Sprint(x) == fmt.Sprint(y)
						}
						cl := "/page-content"
						if perPage > len(want) && page == 1 && sameSet() {
							cl = "/order"
						}
						return "search-" + qd.class + cl, desc + fmt.Sprintf(": returned %v, expected %v (all matches in this order: %v)", ids, exp[lo:hi], exp)
					}
					got = append(got, ids...)
				}
				if fmt.Sprint(got) != fmt.Sprint(exp) {
					return "search-" + qd.class + "/pages-skip-or-repeat", fmt.Sprintf("query %q sort %s page size %d: concatenated pages %v, expected %v", qd.q, order, perPage, got, exp)
				}
			}
		}
	}
	return "", ""
}

func init() {
	register(&Check{ID: "C42", QuickBud: 110 * time.Second, ThorBud: 30 * time.Minute,
		Run: func(c *ev.Ctx) {
			c.Rule = "Every history of up to 3 blocks x up to 2 transactions (thorough: 3) from a 7-kind alphabet (signers/recipients colliding on 3 addresses, no recipient, ante failure, late auth failure, failed message, self-addressed) at height triples that cross the digit-length boundaries of the order-preserving number encoding, plus blocks of 12 transactions (index 9->10), indexed through Index and through AddBatch into the real TransactionIndexer: Get/search by hash of every transaction, and for every height (used and unused), every address as signer and as recipient (with and without a height), both sort orders, every page size 1..n+1 and every page 1..n+2: page content, total, order and concatenation of pages equal a filter-and-sort model"
			maxTx := 2
			if c.Tier == "thorough" {
				maxTx = 3
			}
			heightSets := [][]int64{{1, 2, 3}, {9, 10, 11}, {99, 100, 1000}}
			if c.Tier == "thorough" {
				heightSets = append(heightSets, []int64{80001, 99999, 100000}, []int64{5, 50, 500})
			}
			var blocks [][]int
			var rec func(cur []int)
			rec = func(cur []int) {
				blocks = append(blocks, append([]int{}, cur...))
				if len(cur) == maxTx {
					return
				}
				for k := range c42Kinds {
					rec(append(cur, k))
				}
			}
			rec(nil)
			work := make(chan c42Hist, 1024)
			var wg sync.WaitGroup
			var mu sync.Mutex
			var evals, hists int64
			for w := 0; w < runtime.GOMAXPROCS(0); w++ {
				wg.Add(1)
				go func() {
					defer wg.Done()
					var le, lh int64
					qc := c42QCache{}
					for h := range work {
						if c.Expired() {
							continue
						}
						lh++
						if sig, what := c42Check1(h, dbm.NewMemDB(), &le, qc); sig != "" {
							c.Report(sig, what+fmt.Sprintf("  [blocks %v at heights %v, batch=%v]", h.Blocks, h.Heights, h.Batch), h)
						}
					}
					mu.Lock()
					evals += le
					hists += lh
					mu.Unlock()
				}()
			}
			n := 0
			emit := func(h c42Hist) {
				n++
				if len(h.txs()) > 0 {
					c.Distinct(fmt.Sprint(h))
				}
				work <- h
			}
			// quick: blocks 1 and 2 range over everything, block 3 over a subset; thorough: all three
			third := blocks
			if c.Tier != "thorough" {
				third = blocks[:1+len(c42Kinds)]
			}
			for hi, hs := range heightSets {
				for _, b1 := range blocks {
					for _, b2 := range blocks {
						for _, b3 := range third {
							if hi > 0 && (len(b1)+len(b2)+len(b3))%2 == 1 && c.Tier != "thorough" {
								continue // other height sets: half of the histories in the quick tier
							}
							emit(c42Hist{Blocks: [][]int{b1, b2, b3}, Heights: hs, Batch: (len(b1)+len(b2))%2 == 0})
						}
					}
				}
			}
			// large blocks: position 9 -> 10 and beyond
			for _, hs := range heightSets {
				for k := range c42Kinds {
					big := make([]int, 12)
					for i := range big {
						big[i] = (k + i*i) % len(c42Kinds)
					}
					emit(c42Hist{Blocks: [][]int{big, {k}, big[:3]}, Heights: hs, Batch: k%2 == 0})
				}
			}
			close(work)
			wg.Wait()
			c.AddEvals(evals)
			c.AddStates(hists)
			c.AddTransitions(hists)
			c.AddTraces(hists)
			c.OutcomeN("histories", hists)
			c.OutcomeN("queries", evals)
			if c.Expired() {
				c.Cap("stopped by the time budget")
			}
			c.Sample(c42Hist{Blocks: [][]int{{0, 3}, {2}, {5, 1}}, Heights: heightSets[1], Batch: true})
			c.BoundDone = fmt.Sprintf("%d histories (%d generated), %d queries compared with the model", hists, n, evals)
		},
		Replay: func(raw json.RawMessage) (string, error) {
			var h c42Hist
			if err := json.Unmarshal(raw, &h); err != nil {
				return "", err
			}
			var e int64
			sig, what := c42Check1(h, dbm.NewMemDB(), &e, c42QCache{})
			desc := fmt.Sprintf("blocks %v at heights %v", h.Blocks, h.Heights)
			if sig != "" {
				return desc, fmt.Errorf("%s: %s", sig, what)
			}
			return desc, nil
		},
	})
}
