package checks

import (
	"fmt"
	"time"

	"verif/internal/ev"
)

// monExtra: additional explorations of a monitor check (other parameters, smaller menu), run before the main ones.
var monExtra = map[string]func(c *ev.Ctx, want []string) string{}

func registerMonCheck(id, name string, want []string, envf func(tier string) []EnvCfg, menu func() []BlockSpec, depth [2]int, rule string, assume []string) {
	register(&Check{ID: id, QuickBud: 150 * time.Second, ThorBud: 30 * time.Minute,
		Run: func(c *ev.Ctx) {
			d := depth[0]
			if c.Tier == "thorough" {
				d = depth[1]
			}
			c.Rule = rule + " Explicit-state BFS over the real PocketCoreApp (one transition = one block from the menu); a monitor compares the decoded state before and after EVERY block of every explored history with a shadow model; states merged on raw consensus store content + height + time + validator set."
			for _, a := range assume {
				c.Assume(a)
			}
			done := ""
			if x := monExtra[id]; x != nil {
				done += x(c, want)
			}
			for i, env := range envf(c.Tier) {
				cfg := &chainCfg{Name: fmt.Sprintf("%s-env%d", name, i), Env: env, Menu: menu(), Depth: d, Want: want}
				st := chainExplore(c, cfg)
				done += chainDone(c, cfg, st)
			}
			c.BoundDone = done
			getPool().Close()
		},
		Replay: chainReplayFn,
	})
}

func init() {
	registerMonCheck("C24", "unstake", []string{"mon:lifecycle"},
		func(tier string) []EnvCfg {
			e := defaultEnv()
			// passive payout addresses: N1 -> O1 (never signs), N2 -> A2; the block proposer is not a node, so that no
			// proposer reward lands on a payout address in the payout block
			e.Proposer = "X"
			e.Setup = append([]TxSpec{}, e.Setup...)
			e.Setup[1] = TxSpec{Kind: "node_stake", Signer: "N2", Args: map[string]string{"node": "N2", "value": "2000000", "output": "A2", "chains": "0001+0002"}}
			envs := []EnvCfg{e}
			if tier == "thorough" {
				e3 := e
				e3.UnstakingBlocks = 3
				e0 := e
				e0.UnstakingBlocks = 0
				envs = append(envs, e3, e0)
			}
			return envs
		},
		func() []BlockSpec {
			return []BlockSpec{
				blk(tx("node_unstake", "N1", "node", "N1", "as", "N1")),
				blk(tx("node_unstake", "N2", "node", "N2", "as", "N2")),
				blk(tx("node_stake", "N3", "node", "N3", "value", "1000000", "chains", "0001", "output", "A3")),
				blk(tx("node_unstake", "N3", "node", "N3", "as", "N3")),
				blk(tx("app_unstake", "P1")),
				blk(tx("app_stake", "P2", "value", "1000000")),
				blk(tx("app_unstake", "P2")),
				blk(tx("app_stake", "P1", "app", "NEW", "value", "0", "chains", "")),
				{Absent: []string{"N2"}},
				{TimeJump: 3},
				{},
			}
		},
		[2]int{4, 5},
		"Shadow lifecycle automaton per node and application: a node leaves the staked state only at the last block of a session and only after an accepted begin-unstake request (or a forced unstake of a jailed node); an application only after its own request; an unstaking record persists until the first block whose time reaches its completion time, in which it disappears and its output address (node) / own address (application) gains exactly the stake; never paid twice.",
		[]string{"payout amounts are compared exactly when the payout address neither signs nor receives a send in the payout block (the menu keeps node output addresses passive)"})

	// chain start shifted so that the signed-blocks window boundary (height 80010, where the signing record of every
	// listed validator is reset; the window cannot be shorter than 10) is the third explored block, right after the
	// blocks in which a node was just jailed and is still listed as a signer (two-block update delay)
	monExtra["C25"] = func(c *ev.Ctx, want []string) string {
		e := defaultEnv()
		e.MaxValidators = 3
		e.BaseHeight = 80006
		menu := []BlockSpec{{Absent: []string{"N1"}}, {Absent: []string{"N1", "N2"}}, {}, {TimeJump: 2}, blk(tx("node_unjail", "N1", "node", "N1", "as", "N1")), blk(tx("node_unjail", "N2", "node", "N2", "as", "N2"))}
		d := 4
		if c.Tier == "thorough" {
			d = 6
		}
		cfg := &chainCfg{Name: "slashing-window-boundary", Env: e, Menu: menu, Depth: d, Want: want}
		st := chainExplore(c, cfg)
		return chainDone(c, cfg, st)
	}
	registerMonCheck("C25", "slashing", []string{"mon:slashing", "valset", "nodepool", "supply", "sessions"},
		func(tier string) []EnvCfg {
			e := defaultEnv()
			e.MaxValidators = 3
			// N3 starts 4% above the minimum stake: a downtime slash (1%) jails it above the minimum, a double-sign
			// slash (5%) of the already jailed node then takes it below
			e.Setup = append(append([]TxSpec{}, e.Setup...), TxSpec{Kind: "node_stake", Signer: "N3", Args: map[string]string{"node": "N3", "value": "1040000", "output": "N3", "chains": "0001"}})
			if tier == "thorough" {
				e2 := e
				e2.Setup = append(append([]TxSpec{}, e.Setup[:len(e.Setup)-1]...), TxSpec{Kind: "node_stake", Signer: "N3", Args: map[string]string{"node": "N3", "value": "1000000", "output": "N3", "chains": "0001"}})
				return []EnvCfg{e, e2}
			}
			return []EnvCfg{e}
		},
		func() []BlockSpec {
			return []BlockSpec{
				{Absent: []string{"N1"}},
				{Absent: []string{"N3"}},
				{Absent: []string{"N1", "N2", "N3"}},
				{Evidence: []string{"N1"}},
				{Evidence: []string{"N3"}},
				{Evidence: []string{"N2@1"}},  // too old
				{Evidence: []string{"N3@-3"}}, // infraction committed three blocks ago (when the node may still have had power)
				{TimeJump: 2},
				{},
				blk(tx("node_unjail", "N1", "node", "N1", "as", "N1")),
				blk(tx("node_unjail", "O1", "node", "N1", "as", "O1")),
				blk(tx("node_unjail", "A2", "node", "N1", "as", "A2")),
				blk(tx("node_unjail", "N3", "node", "N3", "as", "N3")),
			}
		},
		[2]int{4, 5},
		"After every block: stake removed from nodes by slashing == decrease of the total supply (no other burns or mints in the menu), never more than the stake; a node whose stake fell below the minimum is jailed and queued to unstake; every unjail request is accepted iff (authorized signer, node jailed, stake >= minimum, block time >= jailed-until) evaluated on the state before the block; jailed nodes are outside the folded consensus set (valset invariant); pool and supply invariants in every final state.",
		[]string{"missed-signature windows: SignedBlocksWindow 10, MinSignedPerWindow 0.9 (two misses jail); evidence age limit 4 block intervals", "the session dispatched in every final state is checked with the C33 oracle (no jailed node, only nodes staked at session start)"})
}
