package checks

import (
	"fmt"
	"math"
	"reflect"
	"sort"
	"time"

	"github.com/pokt-network/pocket-core/codec"
	pc "github.com/pokt-network/pocket-core/x/pocketcore/types"
	"golang.org/x/crypto/blake2b"

	"verif/internal/ev"
)

func msiRelay(i int) pc.Proof {
	return pc.RelayProof{Entropy: int64(1000 + i), SessionBlockHeight: 1, ServicerPubKey: "aa", Blockchain: "0001", RequestHash: fmt.Sprintf("%064x", i),
		Token: pc.AAT{Version: "0.0.1", ApplicationPublicKey: "bb", ClientPublicKey: "cc"}}
}

func msiLevels(n int) int { return int(math.Ceil(math.Log2(float64(n)))) }

// heights selecting the two hashing schemes (the codec upgrade constant is 30024 with default globals)
var msiHeights = map[string]int64{"legacy-hashing": 100, "current-hashing": 40000}

func cloneMP(m pc.MerkleProof) pc.MerkleProof {
	o := pc.MerkleProof{TargetIndex: m.TargetIndex, Target: pc.HashRange{Hash: append([]byte{}, m.Target.Hash...), Range: m.Target.Range}}
	for _, h := range m.HashRanges {
		o.HashRanges = append(o.HashRanges, pc.HashRange{Hash: append([]byte{}, h.Hash...), Range: h.Range})
	}
	return o
}

func msiValidate(mp pc.MerkleProof, h int64, root pc.HashRange, leaf pc.Proof, levels int) (ok, replay bool, panicked interface{}) {
	m := cloneMP(mp) // (an addressable copy: the mutation catalogue shares slices between variants)
	panicked = safely(func() { ok, replay = m.Validate(h, root, leaf, levels) })
	return
}

// msiValidateTwice: verification is a pure check - verifying the SAME proof object again gives the same verdict and
// leaves the object as it was (a servicer that pre-validates its proof submits that very object afterwards).
func msiValidateTwice(mp pc.MerkleProof, h int64, root pc.HashRange, leaf pc.Proof, levels int) (same bool, what string) {
	m := cloneMP(mp)
	var ok1, rp1, ok2, rp2 bool
	if p := safely(func() { ok1, rp1 = m.Validate(h, root, leaf, levels); ok2, rp2 = m.Validate(h, root, leaf, levels) }); p != nil {
		return false, fmt.Sprint("panic: ", p)
	}
	if ok1 != ok2 || rp1 != rp2 {
		return false, fmt.Sprintf("first verification (valid=%v, replay=%v), second verification of the same object (valid=%v, replay=%v)", ok1, rp1, ok2, rp2)
	}
	if !reflect.DeepEqual(m, cloneMP(mp)) {
		return false, fmt.Sprintf("verification changed the proof object: target index %d -> %d, target range %v -> %v", mp.TargetIndex, m.TargetIndex, mp.Target.Range, m.Target.Range)
	}
	return true, ""
}

type msiCase struct {
	Scheme   string `json:"scheme"`
	N        int    `json:"relays"`
	Index    int    `json:"index"`
	Dups     []int  `json:"duplicated_relays,omitempty"`
	Mutation string `json:"mutation,omitempty"`
}

func msiSet(n int, dups []int) []pc.Proof {
	var ps []pc.Proof
	for i := 0; i < n; i++ {
		ps = append(ps, msiRelay(i))
	}
	for _, d := range dups {
		ps = append(ps, msiRelay(d))
	}
	return ps
}

func c29Run(c *ev.Ctx, maxN int) {
	var n int64
	for scheme, h := range msiHeights {
		for cnt := 5; cnt <= maxN; cnt++ {
			root, sorted := pc.GenerateRoot(h, msiSet(cnt, nil))
			for idx := 0; idx < cnt; idx++ {
				mp, leaf := pc.GenerateProofs(h, sorted, idx)
				n++
				ok, replay, p := msiValidate(mp, h, root, leaf, msiLevels(cnt))
				if p != nil || !ok || replay {
					c.Report("msi/genuine-proof-rejected/"+scheme, fmt.Sprintf("%s, %d relays, leaf index %d: the generated proof gives (valid=%v, replay=%v, panic=%v) against the generated root", scheme, cnt, idx, ok, replay, p), msiCase{Scheme: scheme, N: cnt, Index: idx})
				}
				if same, what := msiValidateTwice(mp, h, root, leaf, msiLevels(cnt)); !same {
					c.Report("msi/verification-not-repeatable/"+scheme, fmt.Sprintf("%s, %d relays, leaf index %d: %s", scheme, cnt, idx, what), msiCase{Scheme: scheme, N: cnt, Index: idx})
				}
				if len(mp.HashRanges) != msiLevels(cnt) {
					c.Report("msi/level-count/"+scheme, fmt.Sprintf("%s, %d relays, index %d: proof has %d levels, ceil(log2(n)) = %d", scheme, cnt, idx, len(mp.HashRanges), msiLevels(cnt)), msiCase{Scheme: scheme, N: cnt, Index: idx})
				}
				// from a fresh, unsorted copy of the same relays (the generator orders them itself, as it does for evidence
				// read back from the store): the same proof as from the slice the root generator left sorted
				if mp3, leaf3 := pc.GenerateProofs(h, msiSet(cnt, nil), idx); !reflect.DeepEqual(cloneMP(mp3), cloneMP(mp)) || !reflect.DeepEqual(leaf3, leaf) {
					if ok3, rp3, p3 := msiValidate(mp3, h, root, leaf3, msiLevels(cnt)); p3 != nil || !ok3 || rp3 {
						c.Report("msi/proof-from-unsorted-relays-rejected/"+scheme, fmt.Sprintf("%s, %d relays, leaf index %d: the proof generated from an unsorted copy of the relays gives (valid=%v, replay=%v, panic=%v) against the root", scheme, cnt, idx, ok3, rp3, p3), msiCase{Scheme: scheme, N: cnt, Index: idx})
					}
				}
				// through the evidence object too
				evd := pc.Evidence{Proofs: append([]pc.Proof{}, sorted...), NumOfProofs: int64(cnt)}
				mp2, leaf2 := evd.GenerateMerkleProof(h, idx, int64(cnt))
				if ok2, rp2, p2 := msiValidate(mp2, h, root, leaf2, msiLevels(cnt)); p2 != nil || !ok2 || rp2 {
					c.Report("msi/evidence-proof-rejected/"+scheme, fmt.Sprintf("%s, %d relays, index %d: Evidence.GenerateMerkleProof gives (valid=%v, replay=%v)", scheme, cnt, idx, ok2, rp2), msiCase{Scheme: scheme, N: cnt, Index: idx})
				}
				c.Distinct(fmt.Sprintf("%s|%d|%d", scheme, cnt, idx))
			}
		}
	}
	c.AddEvals(n)
	c.OutcomeN("genuine-proofs-verified", n)
	c.Sample(msiCase{Scheme: "current-hashing", N: 13, Index: 7})
}

func flipHash(h []byte) []byte {
	o := append([]byte{}, h...)
	o[len(o)/2] ^= 1
	return o
}

// c30Mutations: every single-field alteration of (proof, leaf, root, level count).
func c30Mutations(mp pc.MerkleProof, root pc.HashRange, leaf pc.Proof, others []pc.Proof, levels int) (names []string, mps []pc.MerkleProof, roots []pc.HashRange, leaves []pc.Proof, lvls []int) {
	add := func(name string, m pc.MerkleProof, r pc.HashRange, l pc.Proof, lv int) {
		names, mps, roots, leaves, lvls = append(names, name), append(mps, m), append(roots, r), append(leaves, l), append(lvls, lv)
	}
	// leaf
	rl := leaf.(pc.RelayProof)
	for fi, f := range []func(pc.RelayProof) pc.RelayProof{
		func(r pc.RelayProof) pc.RelayProof { r.Entropy++; return r },
		func(r pc.RelayProof) pc.RelayProof { r.RequestHash = "ee" + r.RequestHash[2:]; return r },
		func(r pc.RelayProof) pc.RelayProof { r.SessionBlockHeight++; return r },
		func(r pc.RelayProof) pc.RelayProof { r.ServicerPubKey = "ab"; return r },
		func(r pc.RelayProof) pc.RelayProof { r.Blockchain = "0002"; return r },
		func(r pc.RelayProof) pc.RelayProof { r.Token.ClientPublicKey = "cd"; return r },
	} {
		add(fmt.Sprintf("leaf-field-%d", fi), cloneMP(mp), root, f(rl), levels)
	}
	for oi, o := range others {
		if string(o.Bytes()) != string(leaf.Bytes()) {
			add(fmt.Sprintf("leaf-replaced-by-other-committed-leaf@%d", oi), cloneMP(mp), root, o, levels)
		}
	}
	// index
	width := int64(1) << uint(levels)
	for v := int64(0); v < width; v++ {
		if v != mp.TargetIndex {
			m := cloneMP(mp)
			m.TargetIndex = v
			add(fmt.Sprintf("index-other@%d", v), m, root, leaf, levels)
		}
	}
	for _, v := range []int64{mp.TargetIndex + width, mp.TargetIndex + 2*width, mp.TargetIndex - width} {
		m := cloneMP(mp)
		m.TargetIndex = v
		add(fmt.Sprintf("index-same-path-outside-tree@%+d", v-mp.TargetIndex), m, root, leaf, levels)
	}
	// siblings
	for i := range mp.HashRanges {
		m := cloneMP(mp)
		m.HashRanges[i].Hash = flipHash(m.HashRanges[i].Hash)
		add(fmt.Sprintf("sibling-hash@%d", i), m, root, leaf, levels)
		for _, d := range []int64{-1, 1} {
			m = cloneMP(mp)
			m.HashRanges[i].Range.Lower = uint64(int64(m.HashRanges[i].Range.Lower) + d)
			add(fmt.Sprintf("sibling-lower%+d@%d", d, i), m, root, leaf, levels)
			m = cloneMP(mp)
			m.HashRanges[i].Range.Upper = uint64(int64(m.HashRanges[i].Range.Upper) + d)
			add(fmt.Sprintf("sibling-upper%+d@%d", d, i), m, root, leaf, levels)
		}
	}
	if len(mp.HashRanges) >= 2 {
		m := cloneMP(mp)
		m.HashRanges[0], m.HashRanges[1] = m.HashRanges[1], m.HashRanges[0]
		add("siblings-swapped@0", m, root, leaf, levels)
	}
	// target
	m := cloneMP(mp)
	m.Target.Hash = flipHash(m.Target.Hash)
	add("target-hash", m, root, leaf, levels)
	for _, d := range []int64{-1, 1} {
		m = cloneMP(mp)
		m.Target.Range.Lower = uint64(int64(m.Target.Range.Lower) + d)
		add(fmt.Sprintf("target-lower%+d", d), m, root, leaf, levels)
		m = cloneMP(mp)
		m.Target.Range.Upper = uint64(int64(m.Target.Range.Upper) + d)
		add(fmt.Sprintf("target-upper%+d", d), m, root, leaf, levels)
	}
	// root
	r := root
	r.Hash = flipHash(root.Hash)
	add("root-hash", cloneMP(mp), r, leaf, levels)
	r = root
	r.Range.Upper++
	add("root-upper+1", cloneMP(mp), r, leaf, levels)
	r = root
	r.Range.Upper--
	add("root-upper-1", cloneMP(mp), r, leaf, levels)
	r = root
	r.Range.Lower = 1
	add("root-lower-1", cloneMP(mp), r, leaf, levels)
	// level count (derived from the claimed relay count)
	if levels > 1 {
		add("levels-1", cloneMP(mp), root, leaf, levels-1)
	}
	return
}

func mutClass(name string) string {
	for i := 0; i < len(name); i++ {
		if name[i] == '@' {
			return name[:i]
		}
	}
	return name
}

func c30Run(c *ev.Ctx, maxN int) {
	var n int64
	for scheme, h := range msiHeights {
		for cnt := 5; cnt <= maxN; cnt++ {
			root, sorted := pc.GenerateRoot(h, msiSet(cnt, nil))
			levels := msiLevels(cnt)
			for idx := 0; idx < cnt; idx++ {
				if c.Expired() {
					return
				}
				mp, leaf := pc.GenerateProofs(h, sorted, idx)
				names, mps, roots, leaves, lvls := c30Mutations(mp, root, leaf, sorted, levels)
				for i := range names {
					n++
					ok, _, p := msiValidate(mps[i], h, roots[i], leaves[i], lvls[i])
					if p != nil {
						c.Outcome("mutation-panics:" + mutClass(names[i]))
						continue
					}
					if ok {
						c.Report("msi/forged-proof-accepted/"+scheme+"/"+mutClass(names[i]), fmt.Sprintf("%s, %d relays, index %d: proof altered by %q still verifies", scheme, cnt, idx, names[i]), msiCase{Scheme: scheme, N: cnt, Index: idx, Mutation: names[i]})
					}
				}
				c.Distinct(fmt.Sprintf("forge|%s|%d|%d", scheme, cnt, idx))
			}
		}
	}
	// duplicated relays (zero-width ranges)
	dupSets := [][]int{{0}, {2}, {4}, {1, 1}, {0, 3}, {2, 2, 2}, {0, 1, 2}}
	for scheme, h := range msiHeights {
		for _, cnt := range []int{5, 6, 8, 11} {
			for _, dups := range dupSets {
				set := msiSet(cnt, dups)
				total := len(set)
				root, sorted := pc.GenerateRoot(h, set)
				levels := msiLevels(total)
				zero := msiZeroWidthPaths(sorted, levels)
				for idx := 0; idx < total; idx++ {
					mp, leaf := pc.GenerateProofs(h, sorted, idx)
					n++
					ok, replay, p := msiValidate(mp, h, root, leaf, levels)
					cs := msiCase{Scheme: scheme, N: cnt, Index: idx, Dups: dups}
					if zero[idx] {
						if p != nil || ok || !replay {
							c.Report("msi/zero-width-path-not-reported-as-replay/"+scheme, fmt.Sprintf("%s, %d relays + duplicates %v, leaf index %d lies on a path through a zero-width range: Validate gives (valid=%v, replay=%v, panic=%v), expected (false,true)", scheme, cnt, dups, idx, ok, replay, p), cs)
						}
						c.Outcome("zero-width-path")
					} else {
						c.Outcome(fmt.Sprintf("dup-set-clean-path:valid=%v", ok))
					}
				}
				c.Distinct(fmt.Sprintf("dups|%s|%d|%v", scheme, cnt, dups))
			}
		}
	}
	c.AddEvals(n)
	c.Sample(msiCase{Scheme: "current-hashing", N: 9, Index: 4, Mutation: "sibling-upper+1@2"})
	c.Sample(msiCase{Scheme: "legacy-hashing", N: 6, Index: 3, Dups: []int{2, 2}})
}

// msiZeroWidthPaths: for the sorted leaf list, which leaf indices have a zero-width range on their
// verification path (the leaf itself, a sibling, or an ancestor / ancestor's sibling) - computed from the
// documented range construction (leaf i covers [upper(i-1), upper(i)), a parent covers its children).
func msiZeroWidthPaths(sorted []pc.Proof, levels int) map[int]bool {
	type rg struct{ lo, hi uint64 }
	width := 1 << uint(levels)
	level := make([]rg, width)
	var lower uint64
	sums := make([]uint64, len(sorted))
	for i, p := range sorted {
		h := blake2b.Sum256(p.Bytes())
		sums[i] = leUint64(h[:8])
	}
	if !sort.SliceIsSorted(sums, func(i, j int) bool { return sums[i] < sums[j] }) {
		panic("harness: sorted proofs are not sorted by sum")
	}
	for i := 0; i < width; i++ {
		if i < len(sorted) {
			level[i] = rg{lower, sums[i]}
			lower = sums[i]
		} else {
			level[i] = rg{lower, lower + 1}
			lower++
		}
	}
	out := map[int]bool{}
	for idx := 0; idx < len(sorted); idx++ {
		lv := append([]rg{}, level...)
		i := idx
		bad := false
		for l := 0; l < levels; l++ {
			if lv[i].lo >= lv[i].hi || lv[i^1].lo >= lv[i^1].hi {
				bad = true
			}
			next := make([]rg, len(lv)/2)
			for j := range next {
				next[j] = rg{lv[2*j].lo, lv[2*j+1].hi}
			}
			lv = next
			i /= 2
		}
		out[idx] = bad
	}
	return out
}

func leUint64(b []byte) uint64 {
	var v uint64
	for i := 7; i >= 0; i-- {
		v = v<<8 | uint64(b[i])
	}
	return v
}

func init() {
	register(&Check{ID: "C29", QuickBud: 60 * time.Second, ThorBud: 10 * time.Minute,
		Run: func(c *ev.Ctx) {
			maxN := 33
			if c.Tier == "thorough" {
				maxN = 130
			}
			c.Rule = fmt.Sprintf("every relay count n in 5..%d (distinct relay proofs) x every leaf index < n x both hashing schemes (legacy / current): GenerateRoot + GenerateProofs (and Evidence.GenerateMerkleProof) must validate with ceil(log2 n) levels as (valid, not replay), give the same verdict when the same proof object is verified again and be left unchanged by verification; the proof has exactly ceil(log2 n) levels", maxN)
			c29Run(c, maxN)
			c.BoundDone = fmt.Sprintf("n=5..%d, all indices, 2 hashing schemes", maxN)
		}})
	register(&Check{ID: "C30", QuickBud: 90 * time.Second, ThorBud: 15 * time.Minute,
		Run: func(c *ev.Ctx) {
			maxN := 17
			if c.Tier == "thorough" {
				maxN = 40
			}
			c.Rule = fmt.Sprintf("for every relay count 5..%d x every index x both hashing schemes: every single-field alteration (6 leaf fields, replacement by every other committed leaf, every other index inside the tree and the same path outside it, each sibling's hash / lower / upper +-1, swapped siblings, target hash and range, root hash / upper / lower, level count) must fail verification; multisets with 1-3 duplicated relays at several positions: every leaf whose path crosses a zero-width range (computed from the documented range construction) must give (invalid, replay)", maxN)
			c.Assume("zero-width paths are derived from a reference range model in the harness (leaf i covers [upper(i-1), upper(i)), parents cover their children, padding leaves have width 1)")
			c30Run(c, maxN)
			// application layer: the same zero-width paths delivered as claim + proof transactions to the real application
			c.Rule += "; application layer: claims whose evidence is {n copies of one relay, every relay twice} x n in {6,8} x replay-feature activation {long ago, between session start and proof, exactly at the proof height}, claimed and then proved (at the index the chain selects) in blocks of the real application: the proof transaction is refused and pays nothing, with the replay-attack error whenever it reaches the proof handler (a zero-width target is already refused by the stateless message check); the same flow without duplicates is accepted (control)"
			runChainCases(c, "replay", c30ChainCases())
			getPool().Close()
			c.BoundDone = fmt.Sprintf("n=5..%d all indices all mutations; duplicate sets over n in {5,6,8,11}; application layer 2 duplicate shapes x 2 sizes x 3 activation heights + controls", maxN)
		},
		Replay: caseReplayFn(func(spec, name string) *chainCase {
			for _, cs := range c30ChainCases() {
				if cs.Name == name {
					x := cs
					return &x
				}
			}
			return nil
		})})
}

// c30ChainCases: replayed relays at the application layer. Session 80001 (blocks 80001-80002) is claimed at 80003 and
// proved at 80005 (claim submission window 2 sessions). With duplicated relays every index the chain can select lies
// on a path through a zero-width range (duplicates sort next to each other: the second of each pair has width 0 and is
// the sibling of the first), so the proof must be reported as a replay whatever the entropy block says.
func c30ChainCases() []chainCase {
	var cases []chainCase
	type feat struct {
		name string
		at   int64
	}
	for _, f := range []feat{{"active-long-ago", 0}, {"activated-after-session-start", 80004}, {"activated-at-proof-height", 80005}} {
		env := claimsEnv()
		if f.at != 0 {
			env.FeatureAt = map[string]int64{codec.ReplayBurnKey: f.at}
		}
		for _, dup := range []string{"", "all", "pairs"} {
			for _, n := range []string{"6", "8"} {
				f, dup, n := f, dup, n
				if dup == "" && n == "8" {
					continue
				}
				pre := []BlockSpec{{}, {}, blk(tx("claim", "N1", "session", "cur-1", "relays", n, "dup", dup)), {}}
				p := tx("proof", "N1", "session", "cur-2", "relays", n, "dup", dup)
				cases = append(cases, chainCase{Name: fmt.Sprintf("replay/%s/dup-%s/n%s", f.name, boolStr(dup == "", "none", dup), n), Class: "replay-" + boolStr(dup == "", "control", "dup"), Env: env, Want: []string{"balances", "claims"},
					Ref: append(append([]BlockSpec{}, pre...), BlockSpec{}), Subject: append(append([]BlockSpec{}, pre...), blk(p)),
					Oracle: func(r, s JobResult) (string, string) {
						claimTx := TxRes{Code: 999}
						if len(s.Blocks) >= 3 && len(s.Blocks[2].Txs) == 1 {
							claimTx = s.Blocks[2].Txs[0]
						}
						d := balanceDelta(r, s)
						desc := fmt.Sprintf("claim over %s relays (duplicates: %s) for session 80001 accepted with code %d at 80003; proof at 80005 with the replay feature %s: result code %d (%s), balance changes against the run without the proof %s", n, boolStr(dup == "", "none", dup), claimTx.Code, f.name, lastTx(s).Code, lastTx(s).Log, deltaStr(d))
						if claimTx.Code != 0 {
							return "harness:claim", "the claim of the scenario was not accepted: " + desc
						}
						if dup == "" {
							if lastTx(s).Code != 0 || d["N1"] <= 0 {
								return "harness:control", "the control proof (no duplicates) was not accepted and paid: " + desc
							}
							return "", ""
						}
						if lastTx(s).Code == 0 || d["N1"] > 0 {
							return "replayed-relays-paid", desc
						}
						// 89: the stateless message check already refuses a proof whose own target range has zero width; every
						// proof that reaches the proof handler (zero-width sibling on the path) must come back as a replay
						if lastTx(s).Code != 86 && lastTx(s).Code != 89 {
							return "replay-not-reported-as-replay", desc + "; a path through a zero-width range must be answered with the replay-attack error (86)"
						}
						return "", ""
					}})
			}
		}
	}
	return cases
}
