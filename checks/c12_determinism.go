package checks

import (
	"crypto/sha256"
	"encoding/hex"
	"fmt"
	"os"
	"reflect"
	"strings"
	"sync"
	"time"

	"github.com/pokt-network/pocket-core/store/iavl"
	"github.com/pokt-network/pocket-core/store/rootmulti/heightcache"
	dbm "github.com/tendermint/tm-db"

	"verif/internal/ev"
)

// C12: the same history executed by differently configured worker processes must give identical block results.
// Variants (built by check.sh):
//   repeat     - the unmodified worker again (fresh process state; Go's own random map order)
//   maprot-k   - worker whose runtime takes the hash seed of every map and the start of every map iteration
//                from VERIF_MAPROT=k (build overlay of runtime/map.go): deterministic, different for each k
//   faketime   - worker built with the faketime tag: time.Now() is 2009-11-10, BEFORE the chain's block
//                times (2015), whereas the real clock is after them

type c12Variant struct {
	Name, Class string
	pool        *chainPool
}

func c12Variants(tier string) ([]*c12Variant, error) {
	var vs []*c12Variant
	vs = append(vs, &c12Variant{Name: "repeat", Class: "repeated-execution", pool: newChainPoolWith(2, "", nil)})
	mr := os.Getenv("VERIF_BIN_MAPROT")
	ft := os.Getenv("VERIF_BIN_FAKETIME")
	if mr == "" || ft == "" {
		return nil, fmt.Errorf("C12 must be started through check.sh (seam binaries missing)")
	}
	ks, nw := []int{1, 2, 5}, 3
	if tier == "thorough" {
		ks, nw = []int{0, 1, 2, 3, 4, 5, 6, 7, 9, 14}, 1
	}
	for _, k := range ks {
		vs = append(vs, &c12Variant{Name: fmt.Sprintf("maprot-%d", k), Class: "map-order", pool: newChainPoolWith(nw, mr, []string{fmt.Sprintf("VERIF_MAPROT=%d", k)})})
	}
	vs = append(vs, &c12Variant{Name: "faketime", Class: "wall-clock", pool: newChainPoolWith(3, ft, nil)})
	return vs, nil
}

func c12Diff(a, b []BlockRes, blocks []BlockSpec) (aspect, text string) {
	for i := range a {
		if i >= len(b) {
			return "length", "fewer blocks executed"
		}
		x, y := a[i], b[i]
		for ti := range x.Txs {
			if ti >= len(y.Txs) {
				return "tx-count", fmt.Sprintf("block %d", x.Height)
			}
			if x.Txs[ti].Code != y.Txs[ti].Code || x.Txs[ti].Codespace != y.Txs[ti].Codespace {
				kind := "?"
				if i < len(blocks) && ti < len(blocks[i].Txs) {
					kind = blocks[i].Txs[ti].Kind
				}
				return "tx-result:" + kind, fmt.Sprintf("height %d tx %d (%s): code %s/%d vs %s/%d", x.Height, ti, kind, x.Txs[ti].Codespace, x.Txs[ti].Code, y.Txs[ti].Codespace, y.Txs[ti].Code)
			}
			if x.Txs[ti].Data != y.Txs[ti].Data {
				return "tx-data", fmt.Sprintf("height %d tx %d: data differs", x.Height, ti)
			}
			if x.Txs[ti].Hash != y.Txs[ti].Hash {
				return "tx-bytes", fmt.Sprintf("height %d tx %d: the harness built different transaction bytes (%s vs %s)", x.Height, ti, x.Txs[ti].Hash, y.Txs[ti].Hash)
			}
		}
		if !reflect.DeepEqual(x.ValUpdates, y.ValUpdates) {
			return "validator-updates", fmt.Sprintf("height %d: %v vs %v", x.Height, x.ValUpdates, y.ValUpdates)
		}
		if x.AppHash != y.AppHash {
			return "app-hash", fmt.Sprintf("height %d: app hash %s.. vs %s.. (all transaction results equal up to here)", x.Height, x.AppHash[:12], y.AppHash[:12])
		}
	}
	return "", ""
}

func c12Env() EnvCfg {
	env := claimsEnv()
	env.Proposer = "N1"
	env.Setup = []TxSpec{
		{Kind: "node_stake", Signer: "N1", Args: map[string]string{"node": "N1", "value": "3000000", "output": "O1", "chains": "0001"}},
		// reward delegators without accounts: their accounts are created by the first payout, in payout order
		{Kind: "node_stake", Signer: "N2", Args: map[string]string{"node": "N2", "value": "2000000", "output": "N2", "chains": "0001", "delegators": "F1:10+F2:20+F3:30"}},
	}
	return env
}

// c12FlushVector: the write path of one block, below the application: a block's changes sit in a cache-wrap of the
// IAVL store and reach the tree in ONE flush at commit. For trees of 13 and 24 keys, every pair (and for 13 keys every
// triple) of removals plus an update and an insert is flushed into a fresh copy of the tree; the vector of resulting
// root hashes is a pure function of the history and must be the same in every process.
func c12FlushVector() string {
	h := sha256.New()
	run := func(n int, dels []int) {
		tree, _ := iavl.NewMutableTree(dbm.NewMemDB(), 100)
		st := iavl.UnsafeNewStore(tree, 0, 1, heightcache.InvalidCache{})
		type wr interface {
			Set(k, v []byte) error
			Delete(k []byte) error
			Write()
		}
		b := st.CacheWrap().(wr)
		for i := 0; i < n; i++ {
			_ = b.Set([]byte(fmt.Sprintf("k%02d", i)), []byte("v"))
		}
		b.Write()
		st.Commit()
		b = st.CacheWrap().(wr)
		for _, d := range dels {
			_ = b.Delete([]byte(fmt.Sprintf("k%02d", d)))
		}
		_ = b.Set([]byte("k00"), []byte("w"))
		_ = b.Set([]byte("k07x"), []byte("new"))
		b.Write()
		fmt.Fprintf(h, "%d%v:%X;", n, dels, st.Commit().Hash)
	}
	for _, n := range []int{13, 24} {
		for a := 1; a < n; a++ {
			for b := a + 1; b < n; b++ {
				run(n, []int{a, b})
				run(n, []int{b, a})
				if n == 13 {
					for d := b + 1; d < n; d++ {
						run(n, []int{a, b, d})
					}
				}
			}
		}
	}
	return hex.EncodeToString(h.Sum(nil))
}

func init() {
	chainInvariants["c12:flushvector"] = func(r *replica, res *JobResult) { res.Obs["flushvector"] = c12FlushVector() }
	register(&Check{ID: "C12", QuickBud: 170 * time.Second, ThorBud: 40 * time.Minute,
		Run: func(c *ev.Ctx) {
			c.Rule = "Explicit-state BFS over real ABCI blocks (menu: fee-paying sends under either proposer, proposer with three reward delegators that have no accounts yet, missed blocks/jailing, time jumps, unjail, claims and proofs paying those delegators, edit-stake); EVERY explored history is re-executed in freshly started worker processes of every variant - the unmodified binary again, binaries whose Go runtime takes each map's hash seed and each iteration start from VERIF_MAPROT=k (deterministic, enumerated k), and a binary whose time.Now() is 2009 (before every block time; the real clock is after them) - and the per-transaction codes and data, validator updates and app hash of every block must be identical to the base execution; plus long one-shot histories and 24 exit histories (nodes and applications leaving, many removals per store in one flush, from 6 preceding tree shapes) on every variant; plus the store-level write path: every pair / triple of removals with an update and an insert flushed through the cache-wrap of an IAVL store of 13 / 24 keys, root hashes compared between all worker processes"
			c.Assume("map order is controlled through a build overlay of runtime/map.go (hash seed and iteration start from the environment); the wall clock through Go's faketime build tag; goroutine scheduling inside block execution is not varied (block execution is single-threaded in this application)")
			vs, err := c12Variants(c.Tier)
			if err != nil {
				c.HarnessError(err.Error())
				return
			}
			defer func() {
				for _, v := range vs {
					v.pool.Close()
				}
			}()
			env := c12Env()
			// transaction bytes are an INPUT of block execution: every variant must be fed the bytes the base
			// execution used (a stake message's delegator map encodes in map order)
			resetGlobals(env)
			_ = chainCodec()
			for i := range env.Setup {
				bz, err := buildTxBytes(env.Setup[i], env.BaseHeight+int64(env.Warmup))
				if err != nil {
					c.HarnessError("cannot build setup tx: " + err.Error())
					return
				}
				env.Setup[i].Raw = hex.EncodeToString(bz)
			}
			send := tx("send", "A1", "to", "A2", "amount", "5")
			menu := []BlockSpec{
				{},
				{Proposer: "N2", Txs: []TxSpec{send}},
				blk(send),
				{Absent: []string{"N1"}},
				{TimeJump: 2},
				blk(tx("node_unjail", "N1", "node", "N1", "as", "N1")),
				blk(tx("claim", "N2", "session", "cur-1")),
				blk(tx("proof", "N2", "session", "cur-2")),
				blk(tx("node_stake", "N2", "node", "N2", "value", "2000000", "output", "N2", "chains", "0001", "delegators", "F4:5+F5:6+F6:7+F1:1")),
			}
			depth := 4
			if c.Tier == "thorough" {
				depth = 5
			}
			var cmpN int64
			var mu sync.Mutex
			cfg := &chainCfg{Name: "determinism", Env: env, Menu: menu, Depth: depth, JobArgs: map[string]string{"return_raw": "1"}}
			cfg.OnResult = func(c *ev.Ctx, hist []int, job Job, res JobResult) {
				// same blocks, transactions as raw bytes
				rawJob := Job{Env: job.Env, Want: job.Want}
				for bi, b := range job.Blocks {
					nb := b
					nb.Txs = nil
					for ti, t := range b.Txs {
						if bi >= len(res.Blocks) || ti >= len(res.Blocks[bi].Txs) || res.Blocks[bi].Txs[ti].Raw == "" {
							c.HarnessError("base execution did not return transaction bytes")
							return
						}
						nb.Txs = append(nb.Txs, TxSpec{Kind: t.Kind, Signer: t.Signer, Raw: res.Blocks[bi].Txs[ti].Raw})
					}
					rawJob.Blocks = append(rawJob.Blocks, nb)
				}
				job = rawJob
				var wg sync.WaitGroup
				for _, v := range vs {
					v := v
					wg.Add(1)
					go func() {
						defer wg.Done()
						r2 := v.pool.Exec(job)
						mu.Lock()
						cmpN++
						mu.Unlock()
						if r2.Err != "" {
							c.HarnessError(fmt.Sprintf("variant %s: %s", v.Name, r2.Err))
							return
						}
						if aspect, text := c12Diff(res.Blocks, r2.Blocks, job.Blocks); aspect != "" {
							if aspect == "tx-bytes" {
								c.HarnessError("variant " + v.Name + ": " + text)
								return
							}
							c.Report("nondeterminism/"+v.Class+"/"+aspect, fmt.Sprintf("the same blocks executed by the %s worker give a different result: %s  [history: %v]", v.Name, text, blocksText(job.Blocks)),
								chainReplay{Spec: "determinism:" + v.Name, Env: job.Env, Blocks: job.Blocks, Text: blocksText(job.Blocks)})
						}
					}()
				}
				wg.Wait()
			}
			// long single histories on top of the BFS: the full reward path for the account-less delegators
			st := chainExplore(c, cfg)
			c.BoundDone = chainDone(c, cfg, st)
			long := [][]int{{0, 0, 0, 6, 0, 7, 0, 1, 0}, {3, 3, 4, 5, 2, 0}, {1, 0, 8, 1, 0, 6, 0, 7}}
			for _, h := range long {
				var bl []BlockSpec
				for _, i := range h {
					bl = append(bl, menu[i])
				}
				job := Job{Env: env, Blocks: bl, Args: map[string]string{"return_raw": "1"}}
				res := getPool().Exec(job)
				if res.Err != "" {
					c.HarnessError(res.Err)
					continue
				}
				cfg.OnResult(c, h, job, res)
				var codes []string
				for _, b := range res.Blocks {
					for _, t := range b.Txs {
						codes = append(codes, fmt.Sprint(t.Code))
					}
				}
				c.Outcome("long-history-codes:" + strings.Join(codes, ","))
			}
			// exit histories: blocks whose single flush removes MANY keys of one store (a node and an application leaving
			// the network: record, set and index entries, signing info, queue entries; jailing; proofs removing claims).
			// The order in which a flush hands removals to the tree is the classic place for map order to leak into
			// the tree shape, so these run on every variant from several preceding tree shapes.
			stakeN3 := tx("node_stake", "N3", "node", "N3", "value", "1500000", "output", "N3", "chains", "0001+0002")
			stakeP2 := tx("app_stake", "P2", "value", "1000000", "chains", "0001+0002")
			exitAll := blk(tx("node_unstake", "N2"), tx("app_unstake", "P1"), tx("node_unstake", "N3"), tx("app_unstake", "P2"))
			pres := [][]BlockSpec{
				{},
				{blk(stakeN3)},
				{blk(stakeN3, stakeP2)},
				{blk(stakeN3, stakeP2), blk(tx("send", "A1", "to", "F7", "amount", "5"), tx("send", "A2", "to", "F8", "amount", "5"))},
				{blk(stakeP2), {Absent: []string{"N1"}}},
				{blk(stakeN3, stakeP2), blk(tx("claim", "N2", "session", "cur-1")), blk(tx("claim", "N1", "session", "cur-1"))},
			}
			exits := [][]BlockSpec{
				{exitAll, {}, {}, {}},
				{blk(tx("node_unstake", "N2"), tx("app_unstake", "P1")), {Absent: []string{"N1"}}, {}, {}},
				{blk(tx("node_unstake", "N1"), tx("node_unstake", "N2")), {TimeJump: 2}, {}, {}},
				{blk(tx("app_unstake", "P1"), tx("app_unstake", "P2")), blk(tx("node_unstake", "N3")), {}, {}, {}},
			}
			for pi, pre := range pres {
				for ei, ex := range exits {
					bl := append(append([]BlockSpec{}, pre...), ex...)
					job := Job{Env: env, Blocks: bl, Args: map[string]string{"return_raw": "1"}}
					res := getPool().Exec(job)
					if res.Err != "" {
						c.HarnessError(res.Err)
						continue
					}
					cfg.OnResult(c, nil, job, res)
					nodes, apps := 0, 0
					for _, b := range res.Blocks {
						for ti, t := range b.Txs {
							if t.Code == 0 && ti < len(bl[b.Height-env.BaseHeight-int64(env.Warmup)-1].Txs) {
								switch bl[b.Height-env.BaseHeight-int64(env.Warmup)-1].Txs[ti].Kind {
								case "node_unstake":
									nodes++
								case "app_unstake":
									apps++
								}
							}
						}
					}
					c.Outcome(fmt.Sprintf("exit-history:pre%d/exit%d:%d-nodes-%d-apps-leaving", pi, ei, nodes, apps))
				}
			}
			// store-level write path (see c12FlushVector): evaluated in the base worker and in every variant process
			{
				job := Job{Env: env, Blocks: []BlockSpec{{}}, Want: []string{"c12:flushvector"}}
				base := getPool().Exec(job)
				if base.Err != "" || base.Obs["flushvector"] == nil {
					c.HarnessError("flush vector: " + base.Err)
				}
				for _, v := range vs {
					r2 := v.pool.Exec(job)
					cmpN++
					if r2.Err != "" {
						c.HarnessError(fmt.Sprintf("variant %s: %s", v.Name, r2.Err))
						continue
					}
					if fmt.Sprint(r2.Obs["flushvector"]) != fmt.Sprint(base.Obs["flushvector"]) {
						c.Report("nondeterminism/"+v.Class+"/store-flush", fmt.Sprintf("flushing the same block changes (pairs and triples of removals plus an update and an insert, through the cache-wrap of an IAVL store of 13 / 24 keys) gives other root hashes in the %s worker than in the base worker (digest of all root hashes %v vs %v)", v.Name, r2.Obs["flushvector"], base.Obs["flushvector"]),
							chainReplay{Spec: "determinism:" + v.Name, Env: job.Env, Blocks: job.Blocks, Want: job.Want})
					}
				}
				c.OutcomeN("store-flush-histories", int64(2*(12*11/2+23*22/2)+12*11*10/6))
			}
			c.AddEvals(cmpN)
			c.Extra["variant_executions"] = cmpN
			c.Extra["variants"] = len(vs)
			c.BoundDone += fmt.Sprintf(" x %d variants (%d variant executions)", len(vs), cmpN)
			getPool().Close()
		},
		Replay: chainReplayFn,
	})
}
