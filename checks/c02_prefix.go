package checks

import (
	"bytes"
	"encoding/json"
	"fmt"
	"runtime"
	"strings"
	"sync"
	"time"

	"github.com/pokt-network/pocket-core/store/cachekv"
	"github.com/pokt-network/pocket-core/store/dbadapter"
	"github.com/pokt-network/pocket-core/store/prefix"
	storetypes "github.com/pokt-network/pocket-core/store/types"
	dbm "github.com/tendermint/tm-db"

	"verif/internal/ev"
)

// C02 case: one parent content, one parent kind, one prefix (possibly nested), a short write sequence.
type c02Case struct {
	Parent  []string `json:"parent_keys_hex"`
	Kind    string   `json:"parent_kind"` // memdb | cachekv | nested
	Prefix  string   `json:"prefix_hex"`
	Writes  []string `json:"writes"` // "set:<suffixhex>" / "del:<suffixhex>"
	keys    [][]byte
	pfx     []byte
	writes  []c02Write
	suffixs [][]byte
}

type c02Write struct {
	del bool
	suf []byte
}

func viewOf(parent map[string][]byte, pfx []byte) map[string][]byte {
	out := map[string][]byte{}
	for k, v := range parent {
		if strings.HasPrefix(k, string(pfx)) {
			out[k[len(pfx):]] = v
		}
	}
	return out
}

// c02Build constructs the real parent (of the requested kind) holding exactly `content`, and the prefix view.
func c02Build(kind string, content map[string][]byte, universe [][]byte, pfx []byte) (view storetypes.KVStore, parent storetypes.KVStore) {
	db := dbm.NewMemDB()
	switch kind {
	case "memdb", "nested":
		for k, v := range content {
			_ = db.Set([]byte(k), v)
		}
		parent = dbadapter.Store{DB: db}
	case "cachekv":
		// half of the content sits in the base, the other half is a pending write; absent keys of the
		// universe alternate between "never existed" and "exists in base but pending delete".
		i := 0
		cs := cachekv.NewStore(dbadapter.Store{DB: db})
		for _, kb := range universe {
			k := string(kb)
			v, present := content[k]
			switch {
			case present && i%2 == 0:
				_ = db.Set(kb, v)
			case present:
				_ = db.Set(kb, []byte("old"))
				_ = cs.Set(kb, v)
			case i%2 == 0:
				_ = db.Set(kb, []byte("dead"))
				_ = cs.Delete(kb)
			}
			i++
		}
		parent = cs
	}
	// the prefix slice handed to the store has spare capacity (as one built with append has): an implementation
	// that appends to it instead of copying would alias its range bounds
	sp := make([]byte, len(pfx), len(pfx)+16)
	copy(sp, pfx)
	if kind == "nested" && len(pfx) >= 2 {
		view = prefix.NewStore(prefix.NewStore(parent, sp[:1]), sp[1:])
	} else {
		view = prefix.NewStore(parent, sp)
	}
	return
}

func c02Observe(view storetypes.KVStore, parent storetypes.KVStore, pm map[string][]byte, pfx []byte, suffixes, bounds [][]byte, nObs *int64) (string, string) {
	vm := viewOf(pm, pfx)
	for _, s := range suffixes {
		if len(s) == 0 && len(pfx) == 0 {
			continue
		}
		got, _ := view.Get(s)
		want, ok := vm[string(s)]
		*nObs++
		if (got == nil) != !ok || !bytes.Equal(got, want) {
			return "get/value", fmt.Sprintf("Get(%x) through prefix %x returned %s, parent model has %s present=%v", s, pfx, hx(got), hx(want), ok)
		}
		h, _ := view.Has(s)
		if h != ok {
			return "has/value", fmt.Sprintf("Has(%x) through prefix %x returned %v, model %v", s, pfx, h, ok)
		}
	}
	for _, st := range bounds {
		for _, en := range bounds {
			for _, asc := range []bool{true, false} {
				var it storetypes.Iterator
				if asc {
					it, _ = view.Iterator(st, en)
				} else {
					it, _ = view.ReverseIterator(st, en)
				}
				got, e := drain(it, 64)
				want := modelRange(vm, st, en, asc)
				*nObs++
				if e != "" || !pairsEq(got, want) {
					d := "iter"
					if !asc {
						d = "reviter"
					}
					return d + "/content", fmt.Sprintf("%s(%s,%s) through prefix %x over parent %s yielded %s %s, expected %s", d, hx(st), hx(en), pfx, fmtMap(pm), fmtPairs(got), e, fmtPairs(want))
				}
			}
		}
	}
	// parent must hold exactly the model (keys outside the prefix untouched)
	it, _ := parent.Iterator(nil, nil)
	got, _ := drain(it, 1000)
	if want := modelRange(pm, nil, nil, true); !pairsEq(got, want) {
		return "parent/content", fmt.Sprintf("parent holds %s, model %s (prefix %x)", fmtPairs(got), fmtPairs(want), pfx)
	}
	return "", ""
}

func c02Run(cs *c02Case, universe, suffixes, bounds [][]byte, nObs *int64) (sig, what string) {
	pm := map[string][]byte{}
	for i, k := range cs.keys {
		pm[string(k)] = []byte{byte('a' + i)}
	}
	p := safely(func() {
		view, parent := c02Build(cs.Kind, pm, universe, cs.pfx)
		if sig, what = c02Observe(view, parent, pm, cs.pfx, suffixes, bounds, nObs); sig != "" {
			return
		}
		for wi, w := range cs.writes {
			full := append(append([]byte{}, cs.pfx...), w.suf...)
			if w.del {
				_ = view.Delete(w.suf)
				delete(pm, string(full))
			} else {
				_ = view.Set(w.suf, []byte{byte('W' + wi)})
				pm[string(full)] = []byte{byte('W' + wi)}
			}
			if sig, what = c02Observe(view, parent, pm, cs.pfx, suffixes, bounds, nObs); sig != "" {
				sig = "afterwrite/" + sig
				return
			}
		}
	})
	if p != nil {
		return "panic", fmt.Sprintf("panic: %v", p)
	}
	return
}

func c02Alphabet(tier string) (universe, prefixes, suffixes, bounds [][]byte, kinds []string, depth int) {
	universe = [][]byte{{0}, {1}, {1, 0}, {1, 0xff}, {1, 0xff, 0}, {2}, {0xff}, {0xff, 0xff}, {0xff, 0xff, 1}}
	prefixes = [][]byte{{}, {1}, {1, 0xff}, {0xff}, {0xff, 0xff}}
	suffixes = [][]byte{{}, {0}, {1}, {0xff}, {0xff, 0}, {0xff, 1}}
	bounds = [][]byte{nil, {}, {0}, {0xff}, {0xff, 0xff}, {1}}
	kinds = []string{"memdb", "cachekv", "nested"}
	depth = 1
	if tier == "thorough" {
		depth = 2
	} else {
		universe = [][]byte{{1}, {1, 0}, {1, 0xff}, {1, 0xff, 0}, {2}, {0xff}, {0xff, 0xff}, {0xff, 0xff, 1}}
	}
	return
}

func init() {
	register(&Check{ID: "C02", QuickBud: 100 * time.Second, ThorBud: 30 * time.Minute,
		Run: func(c *ev.Ctx) {
			universe, prefixes, suffixes, bounds, kinds, depth := c02Alphabet(c.Tier)
			c.Rule = fmt.Sprintf("every subset of %d parent keys (chosen around the prefixes, incl. 0xFF carries) x %d prefixes x parent kinds %v x every write sequence (set/delete through the view) of length <= %d; after construction and after every write: Get/Has for every suffix, Iterator/ReverseIterator for every (start,end) in bounds^2 incl. start>end and empty bounds, and the full parent content, all compared with a filter-by-prefix map model; non-trivial = the view holds at least one key and the parent at least one key outside the prefix", len(universe), len(prefixes), kinds, depth)
			c.Assume("the empty key is not used with the empty prefix (parent stores reject it)")
			type job struct{ cs *c02Case }
			var writeSeqs [][]c02Write
			var one []c02Write
			for _, s := range suffixes {
				one = append(one, c02Write{false, s}, c02Write{true, s})
			}
			writeSeqs = append(writeSeqs, nil)
			for _, a := range one {
				writeSeqs = append(writeSeqs, []c02Write{a})
			}
			if depth >= 2 {
				for _, a := range one {
					for _, b := range one {
						writeSeqs = append(writeSeqs, []c02Write{a, b})
					}
				}
			}
			jobs := make(chan *c02Case, 256)
			var wg sync.WaitGroup
			var mu sync.Mutex
			var total, obs int64
			for w := 0; w < runtime.GOMAXPROCS(0); w++ {
				wg.Add(1)
				go func() {
					defer wg.Done()
					var lobs, n int64
					for cs := range jobs {
						if c.Expired() {
							continue
						}
						n++
						sig, what := c02Run(cs, universe, suffixes, bounds, &lobs)
						if sig != "" {
							for _, k := range cs.keys {
								cs.Parent = append(cs.Parent, fmt.Sprintf("%x", k))
							}
							cs.Prefix = fmt.Sprintf("%x", cs.pfx)
							for _, w := range cs.writes {
								op := "set:"
								if w.del {
									op = "del:"
								}
								cs.Writes = append(cs.Writes, op+fmt.Sprintf("%x", w.suf))
							}
							c.Report("prefix/"+sig, what, cs)
						}
					}
					mu.Lock()
					total += n
					obs += lobs
					mu.Unlock()
				}()
			}
			nsub := 1 << len(universe)
			for mask := 0; mask < nsub; mask++ {
				var keys [][]byte
				for i, k := range universe {
					if mask&(1<<i) != 0 {
						keys = append(keys, k)
					}
				}
				for _, pfx := range prefixes {
					in, out := 0, 0
					for _, k := range keys {
						if bytes.HasPrefix(k, pfx) {
							in++
						} else {
							out++
						}
					}
					for _, kind := range kinds {
						if kind == "nested" && len(pfx) < 2 {
							continue
						}
						for _, ws := range writeSeqs {
							skip := false
							for _, w := range ws {
								if len(w.suf) == 0 && len(pfx) == 0 {
									skip = true
								}
							}
							if skip {
								continue
							}
							cs := &c02Case{Kind: kind, keys: keys, pfx: pfx, writes: ws}
							if in > 0 && out > 0 {
								c.Distinct(fmt.Sprintf("%d|%x|%s|%v", mask, pfx, kind, ws))
							}
							jobs <- cs
						}
					}
				}
			}
			close(jobs)
			wg.Wait()
			c.AddStates(total)
			c.AddTransitions(obs)
			c.AddEvals(obs)
			c.AddTraces(total)
			c.Sample(map[string]interface{}{"parent_keys": "subset mask 0b101101 of universe", "prefix": "01ff", "kind": "cachekv", "writes": []string{"set:ff00"}, "observations": "Get/Has x6 suffixes, 36 ranges x 2 directions, parent content"})
			c.BoundDone = fmt.Sprintf("subsets=%d prefixes=%d kinds=%d write-depth=%d cases=%d observations=%d", nsub, len(prefixes), len(kinds), depth, total, obs)
		},
		Replay: func(raw json.RawMessage) (string, error) {
			var cs c02Case
			if err := json.Unmarshal(raw, &cs); err != nil {
				return "", err
			}
			universe, _, suffixes, bounds, _, _ := c02Alphabet("thorough")
			for _, k := range cs.Parent {
				var b []byte
				fmt.Sscanf(k, "%x", &b)
				cs.keys = append(cs.keys, b)
			}
			fmt.Sscanf(cs.Prefix, "%x", &cs.pfx)
			if cs.pfx == nil {
				cs.pfx = []byte{}
			}
			for _, w := range cs.Writes {
				var b []byte
				fmt.Sscanf(w[4:], "%x", &b)
				if b == nil {
					b = []byte{}
				}
				cs.writes = append(cs.writes, c02Write{del: w[:3] == "del", suf: b})
			}
			var n int64
			sig, what := c02Run(&cs, universe, suffixes, bounds, &n)
			if sig != "" {
				return fmt.Sprintf("%+v", cs), fmt.Errorf("%s: %s", sig, what)
			}
			return fmt.Sprintf("%+v", cs), nil
		},
	})
}
