package checks

import (
	"bytes"
	"crypto/sha256"
	"encoding/json"
	"fmt"
	"reflect"
	"sort"
	"strings"
	"time"

	"github.com/pokt-network/pocket-core/store/cachekv"
	"github.com/pokt-network/pocket-core/store/dbadapter"
	storetypes "github.com/pokt-network/pocket-core/store/types"
	dbm "github.com/tendermint/tm-db"

	"verif/internal/dump"
	"verif/internal/ev"
	"verif/internal/seq"
)

// ---- shared helpers for the store-layer checks ----

type kvPair struct{ K, V string }

func hx(b []byte) string {
	if b == nil {
		return "nil"
	}
	return fmt.Sprintf("%x", b)
}

func inDomain(k string, start, end []byte) bool {
	if start != nil && k < string(start) {
		return false
	}
	if end != nil && k >= string(end) {
		return false
	}
	return true
}

// modelRange: sorted in-range content of m, in the requested direction.
func modelRange(m map[string][]byte, start, end []byte, asc bool) []kvPair {
	var out []kvPair
	for k, v := range m {
		if inDomain(k, start, end) {
			out = append(out, kvPair{k, string(v)})
		}
	}
	sort.Slice(out, func(i, j int) bool {
		if asc {
			return out[i].K < out[j].K
		}
		return out[i].K > out[j].K
	})
	return out
}

func drain(it storetypes.Iterator, limit int) (out []kvPair, err string) {
	defer it.Close()
	for i := 0; it.Valid(); i++ {
		if i > limit {
			return out, "iterator does not terminate"
		}
		k, v := it.Key(), it.Value()
		if v == nil {
			err = fmt.Sprintf("iterator yields nil value for key %x", k)
		}
		out = append(out, kvPair{string(k), string(v)})
		it.Next()
	}
	return out, err
}

func fmtPairs(p []kvPair) string {
	var sb strings.Builder
	sb.WriteString("[")
	for i, x := range p {
		if i > 0 {
			sb.WriteString(" ")
		}
		fmt.Fprintf(&sb, "%x=%q", x.K, x.V)
	}
	sb.WriteString("]")
	return sb.String()
}

func pairsEq(a, b []kvPair) bool {
	if len(a) != len(b) {
		return false
	}
	for i := range a {
		if a[i] != b[i] {
			return false
		}
	}
	return true
}

func copyMap(m map[string][]byte) map[string][]byte {
	o := make(map[string][]byte, len(m))
	for k, v := range m {
		o[k] = v
	}
	return o
}

func fmtMap(m map[string][]byte) string { return fmtPairs(modelRange(m, nil, nil, true)) }

func safely(f func()) (p interface{}) {
	defer func() { p = recover() }()
	f()
	return nil
}

// ---- C01 ----

type c01Op struct {
	kind       string // get has set del iter open step close wrap write discard
	key, val   []byte
	start, end []byte
	asc        bool
	idx        int
}

func (o c01Op) String() string {
	switch o.kind {
	case "get", "has", "del":
		return fmt.Sprintf("%s(%x)", o.kind, o.key)
	case "set":
		return fmt.Sprintf("set(%x,%q)", o.key, o.val)
	case "iter", "open":
		d := "asc"
		if !o.asc {
			d = "desc"
		}
		return fmt.Sprintf("%s(%s,%s,%s)", o.kind, hx(o.start), hx(o.end), d)
	case "step", "close":
		return fmt.Sprintf("%s(#%d)", o.kind, o.idx)
	}
	return o.kind
}

type c01Iter struct {
	impl storetypes.Iterator
	rest []kvPair
}

type c01Sys struct {
	ops     []c01Op
	keys    [][]byte
	maxWrap int
	maxOpen int
	base    *dbm.MemDB
	layers  []*cachekv.Store
	views   []map[string][]byte // views[0] = base content, views[i+1] = flattened view of layers[i]
	iters   []*c01Iter
}

func c01Ops(keys, vals, bounds [][]byte, maxOpen int) []c01Op {
	var ops []c01Op
	for _, k := range keys {
		ops = append(ops, c01Op{kind: "get", key: k}, c01Op{kind: "has", key: k}, c01Op{kind: "del", key: k})
		for _, v := range vals {
			ops = append(ops, c01Op{kind: "set", key: k, val: v})
		}
	}
	bs := append([][]byte{nil}, bounds...)
	for _, kind := range []string{"iter", "open"} {
		if kind == "open" && maxOpen == 0 {
			continue
		}
		for _, s := range bs {
			for _, e := range bs {
				for _, asc := range []bool{true, false} {
					ops = append(ops, c01Op{kind: kind, start: s, end: e, asc: asc})
				}
			}
		}
	}
	for i := 0; i < maxOpen; i++ {
		ops = append(ops, c01Op{kind: "step", idx: i}, c01Op{kind: "close", idx: i})
	}
	ops = append(ops, c01Op{kind: "wrap"}, c01Op{kind: "write"}, c01Op{kind: "discard"})
	return ops
}

func newC01Sys(ops []c01Op, keys [][]byte, prefill map[string][]byte, maxWrap, maxOpen int) *c01Sys {
	s := &c01Sys{ops: ops, keys: keys, maxWrap: maxWrap, maxOpen: maxOpen, base: dbm.NewMemDB()}
	for k, v := range prefill {
		_ = s.base.Set([]byte(k), v)
	}
	s.views = []map[string][]byte{copyMap(prefill), copyMap(prefill)}
	s.layers = []*cachekv.Store{cachekv.NewStore(dbadapter.Store{DB: s.base})}
	return s
}

func (s *c01Sys) top() *cachekv.Store     { return s.layers[len(s.layers)-1] }
func (s *c01Sys) view() map[string][]byte { return s.views[len(s.views)-1] }
func (s *c01Sys) Close()                  { s.closeIters() }
func (s *c01Sys) closeIters() {
	for _, it := range s.iters {
		it.impl.Close()
	}
	s.iters = nil
}

func (s *c01Sys) Enabled(i int) bool {
	o := s.ops[i]
	switch o.kind {
	case "wrap":
		return len(s.iters) == 0 && len(s.layers) < s.maxWrap
	case "write", "discard":
		return len(s.iters) == 0
	case "open":
		return len(s.iters) < s.maxOpen
	case "step", "close":
		return o.idx < len(s.iters)
	}
	return true
}

func (s *c01Sys) Apply(i int) (sig, what string) {
	o := s.ops[i]
	p := safely(func() { sig, what = s.apply(o) })
	if p != nil {
		return o.kind + "/panic", fmt.Sprintf("%s panicked: %v", o, p)
	}
	return
}

func (s *c01Sys) apply(o c01Op) (string, string) {
	st, m := s.top(), s.view()
	switch o.kind {
	case "get":
		got, err := st.Get(o.key)
		want, ok := m[string(o.key)]
		if err != nil || (got == nil) != !ok || !bytes.Equal(got, want) {
			return "get/value", fmt.Sprintf("%s returned %s err=%v, overlay model has %s present=%v", o, hx(got), err, hx(want), ok)
		}
	case "has":
		got, err := st.Has(o.key)
		_, ok := m[string(o.key)]
		if err != nil || got != ok {
			return "has/value", fmt.Sprintf("%s returned %v err=%v, model %v", o, got, err, ok)
		}
	case "set":
		if err := st.Set(o.key, o.val); err != nil {
			return "set/error", err.Error()
		}
		m[string(o.key)] = o.val
	case "del":
		if err := st.Delete(o.key); err != nil {
			return "del/error", err.Error()
		}
		delete(m, string(o.key))
	case "iter":
		var it storetypes.Iterator
		var err error
		if o.asc {
			it, err = st.Iterator(o.start, o.end)
		} else {
			it, err = st.ReverseIterator(o.start, o.end)
		}
		if err != nil {
			return "iter/error", err.Error()
		}
		got, e := drain(it, 64)
		want := modelRange(m, o.start, o.end, o.asc)
		if e != "" || !pairsEq(got, want) {
			return "iter/content", fmt.Sprintf("%s yielded %s %s, overlay model %s", o, fmtPairs(got), e, fmtPairs(want))
		}
	case "open":
		var it storetypes.Iterator
		var err error
		if o.asc {
			it, err = st.Iterator(o.start, o.end)
		} else {
			it, err = st.ReverseIterator(o.start, o.end)
		}
		if err != nil {
			return "open/error", err.Error()
		}
		s.iters = append(s.iters, &c01Iter{impl: it, rest: modelRange(m, o.start, o.end, o.asc)})
	case "step":
		it := s.iters[o.idx]
		v := it.impl.Valid()
		if v != (len(it.rest) > 0) {
			return "step/valid", fmt.Sprintf("open iterator #%d Valid()=%v, snapshot model has %d entries left %s", o.idx, v, len(it.rest), fmtPairs(it.rest))
		}
		if !v {
			it.impl.Close()
			s.iters = append(s.iters[:o.idx], s.iters[o.idx+1:]...)
			return "", ""
		}
		k, val := it.impl.Key(), it.impl.Value()
		if string(k) != it.rest[0].K || string(val) != it.rest[0].V || val == nil {
			return "step/content", fmt.Sprintf("open iterator #%d at %x=%s, snapshot model expects %x=%q", o.idx, k, hx(val), it.rest[0].K, it.rest[0].V)
		}
		it.impl.Next()
		it.rest = it.rest[1:]
	case "close":
		s.iters[o.idx].impl.Close()
		s.iters = append(s.iters[:o.idx], s.iters[o.idx+1:]...)
	case "wrap":
		s.layers = append(s.layers, cachekv.NewStore(st))
		s.views = append(s.views, copyMap(m))
	case "write":
		st.Write()
		n := len(s.views)
		s.views[n-2] = copyMap(m)
		if len(s.layers) > 1 {
			s.layers = s.layers[:len(s.layers)-1]
			s.views = s.views[:n-1]
		}
		if sig, what := s.checkBase("write"); sig != "" {
			return sig, what
		}
	case "discard":
		n := len(s.views)
		if len(s.layers) > 1 {
			s.layers = s.layers[:len(s.layers)-1]
			s.views = s.views[:n-1]
		} else {
			s.layers[0] = cachekv.NewStore(dbadapter.Store{DB: s.base})
			s.views[1] = copyMap(s.views[0])
		}
		if sig, what := s.checkBase("discard"); sig != "" {
			return sig, what
		}
	}
	return "", ""
}

func (s *c01Sys) baseContent() []kvPair {
	it, _ := s.base.Iterator(nil, nil)
	got, _ := drain(it, 1000)
	return got
}

func (s *c01Sys) checkBase(when string) (string, string) {
	got, want := s.baseContent(), modelRange(s.views[0], nil, nil, true)
	if !pairsEq(got, want) {
		return when + "/base", fmt.Sprintf("after %s the bottom parent holds %s, model %s", when, fmtPairs(got), fmtPairs(want))
	}
	return "", ""
}

var c01DumpOpts = dump.Opts{
	Follow: func(t reflect.Type) bool {
		for t.Kind() == reflect.Ptr {
			t = t.Elem()
		}
		p := t.PkgPath()
		return strings.HasSuffix(p, "store/cachekv") || strings.HasSuffix(p, "libs/kv") || p == ""
	},
	SkipField: func(t reflect.Type, f string) bool { return f == "mtx" || strings.HasPrefix(f, "XXX_") },
}

func (s *c01Sys) Key() string {
	var sb strings.Builder
	// implementation bookkeeping of every layer (top follows parent pointers down to the adapter)
	sb.WriteString(dump.Dump(s.top(), c01DumpOpts))
	sb.WriteString("|base:" + fmtPairs(s.baseContent()))
	for _, v := range s.views {
		sb.WriteString("|" + fmtMap(v))
	}
	for _, it := range s.iters {
		sb.WriteString("|it:" + fmtPairs(it.rest))
	}
	h := sha256.Sum256([]byte(sb.String()))
	return string(h[:16])
}

// Final: complete observation of the reached state, then flush everything and compare the bottom parent.
func (s *c01Sys) Final() (sig, what string) {
	p := safely(func() { sig, what = s.final() })
	if p != nil {
		return "panic", fmt.Sprintf("full observation panicked: %v", p)
	}
	return
}

func (s *c01Sys) final() (string, string) {
	for _, it := range s.iters {
		got, e := drain(it.impl, 64)
		if e != "" || !pairsEq(got, it.rest) {
			return "openiter/rest", fmt.Sprintf("open iterator drained to %s %s, snapshot model %s", fmtPairs(got), e, fmtPairs(it.rest))
		}
	}
	s.iters = nil
	for _, asc := range []bool{true, false} {
		if sig, what := s.apply(c01Op{kind: "iter", asc: asc}); sig != "" {
			return sig, what
		}
	}
	for _, k := range s.keys {
		if sig, what := s.apply(c01Op{kind: "has", key: k}); sig != "" {
			return sig, what
		}
		if sig, what := s.apply(c01Op{kind: "get", key: k}); sig != "" {
			return sig, what
		}
	}
	for _, asc := range []bool{true, false} {
		if sig, what := s.apply(c01Op{kind: "iter", asc: asc}); sig != "" {
			return sig, what
		}
	}
	for len(s.layers) > 1 {
		if sig, what := s.apply(c01Op{kind: "write"}); sig != "" {
			return sig, what
		}
	}
	return s.apply(c01Op{kind: "write"})
}

func c01Spec(name string, tier string, variant int) *seq.Spec {
	k01, k0100, k02, kff := []byte{1}, []byte{1, 0}, []byte{2}, []byte{0xff}
	var keys, vals, bounds [][]byte
	var prefill map[string][]byte
	maxWrap, maxOpen, depth := 2, 1, 4
	switch variant {
	case 0: // broad alphabet, shallow
		keys = [][]byte{k01, k0100, k02, kff}
		vals = [][]byte{[]byte("a"), {}} // the empty (non-nil) value is a value, not a delete
		bounds = keys
		prefill = map[string][]byte{string(k0100): []byte("p"), string(kff): []byte("q")}
		depth = 4
		if tier == "thorough" {
			vals = append(vals, []byte("b"))
			maxWrap, maxOpen, depth = 3, 2, 5
		}
	case 1: // narrow alphabet, deep: sorted/unsorted dirty bookkeeping, re-set after delete, nested wraps
		keys = [][]byte{k01, k02}
		vals = [][]byte{[]byte("a"), []byte("b")}
		bounds = [][]byte{k01, k02}
		prefill = map[string][]byte{string(k02): []byte("p")}
		maxWrap, maxOpen, depth = 3, 1, 6
		if tier == "thorough" {
			keys = [][]byte{k01, k02, kff}
			bounds = [][]byte{k02, kff}
			depth = 7
		}
	}
	ops := c01Ops(keys, vals, bounds, maxOpen)
	return &seq.Spec{
		Name: name, NumOps: len(ops), Depth: depth,
		OpName: func(i int) string { return ops[i].String() },
		OpKind: func(i int) string { return ops[i].kind },
		New:    func() seq.Sys { return newC01Sys(ops, keys, prefill, maxWrap, maxOpen) },
		Trivial: func(h []uint16) bool {
			// non-trivial: at least one write op and one read op in the history
			w, r := false, false
			for _, o := range h {
				switch ops[o].kind {
				case "set", "del":
					w = true
				case "get", "has", "iter", "open", "step":
					r = true
				}
			}
			return !(w && r)
		},
	}
}

func init() {
	register(&Check{ID: "C01", QuickBud: 100 * time.Second, ThorBud: 30 * time.Minute,
		Run: func(c *ev.Ctx) {
			c.Rule = "BFS over all operation sequences (get/has/set/delete/drained iterator/open-step-close iterator with interleaved writes/wrap/write/discard) on a stack of real cachekv.Store over a MemDB adapter, every return value compared with a stack-of-maps overlay model; state merged on implementation bookkeeping (cache, unsortedCache, sortedCache read by reflection) + model; a state is non-trivial if its history contains a write and a read"
			c.Assume("operations go to the innermost wrap only (a parent is not written while a child wrap is alive) - the way Context.CacheContext is used")
			c.Assume("an open iterator is compared with the overlay as of its creation; reads and iterators created after a write see the write")
			done := ""
			for v := 0; v < 2; v++ {
				sp := c01Spec(fmt.Sprintf("cachekv-v%d", v), c.Tier, v)
				r := seq.Run(c, sp)
				done += fmt.Sprintf("%s: depth %d/%d complete=%v states=%d transitions=%d ops=%d; ", sp.Name, r.DepthDone, sp.Depth, r.Complete, r.States, r.Transitions, sp.NumOps)
				if !r.Complete {
					c.Cap(fmt.Sprintf("%s stopped at depth %d of %d", sp.Name, r.DepthDone, sp.Depth))
				}
			}
			c.BoundDone = done
		},
		Replay: func(raw json.RawMessage) (string, error) {
			var r seq.Replay
			if err := json.Unmarshal(raw, &r); err != nil {
				return "", err
			}
			for _, tier := range []string{"quick", "thorough"} {
				for v := 0; v < 2; v++ {
					sp := c01Spec(fmt.Sprintf("cachekv-v%d", v), tier, v)
					if sp.Name == r.Spec && replayNamesMatch(sp, r) {
						return seq.ReplayOps(sp, r.Idx)
					}
				}
			}
			return "", fmt.Errorf("no spec matches replay %q", r.Spec)
		},
	})
}

func replayNamesMatch(sp *seq.Spec, r seq.Replay) bool {
	for i, o := range r.Idx {
		if int(o) >= sp.NumOps || sp.OpName(int(o)) != r.Ops[i] {
			return false
		}
	}
	return true
}
