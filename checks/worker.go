package checks

import "os"

// WorkerMain is the entry of subprocess replicas (chain checks); filled in by chain.go.
var workerEntry func(args []string)

func WorkerMain(args []string) {
	if workerEntry == nil {
		os.Exit(3)
	}
	workerEntry(args)
}
