package checks

import (
	"encoding/json"
	"fmt"
	"reflect"
	"sync"

	"verif/internal/ev"
)

// chainCfg: one explicit-state search over the real application.
type chainCfg struct {
	Name   string
	Env    EnvCfg
	Menu   []BlockSpec // alphabet: one block per transition
	Depth  int
	Want   []string // invariants evaluated on the final state of every replica
	Prefix []BlockSpec
	// Filter may veto a menu item given the history of menu indices (keeps the alphabet small and sharp)
	Filter func(hist []int, next int) bool
	// OnResult sees every job result (differential oracles)
	OnResult func(c *ev.Ctx, hist []int, job Job, res JobResult)
	NoDedup  bool
	// KeyExtra is appended to the state key (history-dependent exploration budgets, e.g. deviations used)
	KeyExtra func(hist []int) string
	// PanicSig: when set, a panic of the real application during block execution is a violation with this
	// signature (a block sequence every node would crash on); otherwise it is an error of the harness run
	PanicSig string
	// JobArgs are passed to every job (Job.Args)
	JobArgs map[string]string
}

type chainReplay struct {
	Spec   string      `json:"spec"`
	Env    EnvCfg      `json:"env"`
	Blocks []BlockSpec `json:"blocks"`
	Want   []string    `json:"want"`
	Text   []string    `json:"history"`
}

func blocksText(bs []BlockSpec) []string {
	var out []string
	for _, b := range bs {
		out = append(out, b.String())
	}
	return out
}

type chainStats struct {
	States, Transitions int64
	DepthDone           int
	Complete            bool
}

var chainPoolSingleton *chainPool
var chainPoolOnce sync.Once

func getPool() *chainPool {
	chainPoolOnce.Do(func() { chainPoolSingleton = newChainPool(0) })
	return chainPoolSingleton
}

// chainSelfCheck: the same job twice (on different workers) must give identical results.
func chainSelfCheck(c *ev.Ctx, job Job) bool {
	p := getPool()
	a := p.Exec(job)
	b := p.Exec(job)
	if a.Err != "" {
		c.HarnessError("self-check job failed: " + a.Err)
		return false
	}
	if len(a.Viols) > 0 || len(b.Viols) > 0 {
		// the main run reports them; which failing input is met first may legitimately depend on map order
		return true
	}
	if !reflect.DeepEqual(a, b) {
		ja, _ := json.Marshal(a)
		jb, _ := json.Marshal(b)
		c.HarnessError(fmt.Sprintf("determinism self-check failed: identical job gave different results\n%s\n%s", tail(string(ja), 600), tail(string(jb), 600)))
		return false
	}
	c.Extra["determinism_selfcheck"] = "identical job executed twice on two workers: results byte-identical"
	return true
}

func chainExplore(c *ev.Ctx, cfg *chainCfg) chainStats {
	p := getPool()
	st := chainStats{Complete: true}
	mkJob := func(hist []int) Job {
		bl := append([]BlockSpec{}, cfg.Prefix...)
		for _, i := range hist {
			bl = append(bl, cfg.Menu[i])
		}
		return Job{Env: cfg.Env, Blocks: bl, Want: cfg.Want, Args: cfg.JobArgs}
	}
	if !chainSelfCheck(c, mkJob([]int{0})) {
		st.Complete = false
		return st
	}
	seen := map[string]bool{}
	var mu sync.Mutex
	handle := func(hist []int, job Job, res JobResult) (string, bool) {
		if res.AppPanic != "" && cfg.PanicSig != "" {
			c.Report(cfg.Name+"/"+cfg.PanicSig, "block execution panics: "+res.AppPanic+"  [history: "+fmt.Sprint(blocksText(job.Blocks))+"]", chainReplay{Spec: cfg.Name, Env: job.Env, Blocks: job.Blocks, Want: job.Want, Text: blocksText(job.Blocks)})
			return "", false
		}
		if res.Err != "" {
			c.HarnessError(fmt.Sprintf("%s: job %v failed: %s", cfg.Name, blocksText(job.Blocks), res.Err))
			return "", false
		}
		for _, v := range res.Viols {
			c.Report(cfg.Name+"/"+v.Sig, v.What+"  [history: "+fmt.Sprint(blocksText(job.Blocks))+"]", chainReplay{Spec: cfg.Name, Env: job.Env, Blocks: job.Blocks, Want: job.Want, Text: blocksText(job.Blocks)})
		}
		if cfg.OnResult != nil {
			cfg.OnResult(c, hist, job, res)
		}
		return res.StateKey, true
	}
	root := mkJob(nil)
	rres := p.Exec(root)
	if k, ok := handle(nil, root, rres); ok {
		seen[k] = true
	}
	st.States = 1
	frontier := [][]int{{}}
	for d := 1; d <= cfg.Depth && len(frontier) > 0; d++ {
		type item struct {
			hist []int
		}
		work := make(chan item, 256)
		var next [][]int
		var wg sync.WaitGroup
		aborted := false
		var trans, states int64
		for w := 0; w < p.n; w++ {
			wg.Add(1)
			go func() {
				defer wg.Done()
				for it := range work {
					if c.Expired() {
						mu.Lock()
						aborted = true
						mu.Unlock()
						continue
					}
					job := mkJob(it.hist)
					res := p.Exec(job)
					k, ok := handle(it.hist, job, res)
					if ok && cfg.KeyExtra != nil {
						k += "|" + cfg.KeyExtra(it.hist)
					}
					mu.Lock()
					trans++
					for _, b := range job.Blocks[len(job.Blocks)-1:] {
						if !ok || len(res.Blocks) == 0 {
							break
						}
						for ti, t := range b.Txs {
							if ti < len(res.Blocks[len(res.Blocks)-1].Txs) {
								c.Outcome(fmt.Sprintf("%s:%s:code%d", cfg.Name, t.Kind, res.Blocks[len(res.Blocks)-1].Txs[ti].Code))
							}
						}
					}
					if ok && (cfg.NoDedup || !seen[k]) {
						seen[k] = true
						states++
						next = append(next, it.hist)
						nontrivial := false
						for _, br := range res.Blocks {
							for _, tr := range br.Txs {
								if tr.Code == 0 {
									nontrivial = true
								}
							}
							if len(br.ValUpdates) > 0 {
								nontrivial = true
							}
						}
						if nontrivial {
							c.Distinct(cfg.Name + "|" + k)
						}
					}
					mu.Unlock()
				}
			}()
		}
		for _, h := range frontier {
			for i := range cfg.Menu {
				if cfg.Filter != nil && !cfg.Filter(h, i) {
					continue
				}
				nh := append(append(make([]int, 0, len(h)+1), h...), i)
				work <- item{nh}
			}
		}
		close(work)
		wg.Wait()
		st.Transitions += trans
		st.States += states
		if aborted {
			st.Complete = false
			break
		}
		st.DepthDone = d
		frontier = next
		if len(next) > 0 {
			c.Sample(map[string]interface{}{"spec": cfg.Name, "depth": d, "history": blocksText(mkJob(next[len(next)/2]).Blocks)})
		}
	}
	c.AddStates(st.States)
	c.AddTransitions(st.Transitions)
	c.AddTraces(st.Transitions)
	c.Extra["blocks_executed_on_real_app"] = p.Blocks
	c.Extra["replicas"] = p.Jobs
	return st
}

func chainDone(c *ev.Ctx, cfg *chainCfg, st chainStats) string {
	if !st.Complete {
		c.Cap(fmt.Sprintf("%s stopped at depth %d of %d", cfg.Name, st.DepthDone, cfg.Depth))
	}
	return fmt.Sprintf("%s: depth %d/%d complete=%v states=%d transitions=%d menu=%d; ", cfg.Name, st.DepthDone, cfg.Depth, st.Complete, st.States, st.Transitions, len(cfg.Menu))
}

// chainReplayFn re-executes a recorded history in-process (verifbin replay).
func chainReplayFn(raw json.RawMessage) (string, error) {
	var r chainReplay
	if err := json.Unmarshal(raw, &r); err != nil {
		return "", err
	}
	res := runJob(Job{Env: r.Env, Blocks: r.Blocks, Want: r.Want})
	desc := fmt.Sprint(blocksText(r.Blocks))
	if res.AppPanic != "" {
		return desc, fmt.Errorf("block execution panics: %s", res.AppPanic)
	}
	if res.Err != "" {
		return desc, fmt.Errorf("harness error: %s", res.Err)
	}
	if len(res.Viols) > 0 {
		return desc, fmt.Errorf("%s: %s", res.Viols[0].Sig, res.Viols[0].What)
	}
	return desc, nil
}
