package checks

import (
	"bytes"
	"encoding/json"
	"fmt"
	"os"
	"runtime"
	"sync"
	"time"

	"github.com/pokt-network/pocket-core/store/iavl"
	"github.com/pokt-network/pocket-core/store/rootmulti"
	storetypes "github.com/pokt-network/pocket-core/store/types"
	abci "github.com/tendermint/tendermint/abci/types"
	"github.com/tendermint/tendermint/crypto/merkle"
	"github.com/tendermint/tendermint/crypto/tmhash"
	dbm "github.com/tendermint/tm-db"

	"verif/internal/ev"
)

type c05Case struct {
	Mask     int    `json:"subset_mask"`
	Order    int    `json:"insertion_order"`
	Version  int64  `json:"version"`
	Key      string `json:"key_hex"`
	NKeys    int    `json:"universe_size"`
	Universe string `json:"universe,omitempty"` // "" = one-byte keys; "prefix" = keys that extend one another
	Mutation string `json:"mutation,omitempty"`
}

var c05Vals = [][]byte{[]byte("v1"), []byte("v2"), []byte("")}

// c05UniverseNamed: "prefix" is a universe of keys that are prefixes / extensions of one another (and probe keys
// that extend a stored key, lie between an extension and its base, or are cut short).
func c05UniverseNamed(name string, n int) (keys, probes [][]byte) {
	if name != "prefix" {
		return c05Universe(n)
	}
	keys = [][]byte{{0x10}, {0x10, 0x10}, {0x10, 0x10, 0x00}, {0x20}, {0x20, 0xff}}
	probes = append(probes, keys...)
	probes = append(probes, []byte{0x05}, []byte{0x10, 0x00}, []byte{0x10, 0x05}, []byte{0x10, 0x10, 0x00, 0x00}, []byte{0x10, 0x10, 0x01}, []byte{0x10, 0x20},
		[]byte{0x15}, []byte{0x20, 0x00}, []byte{0x20, 0xfe}, []byte{0x20, 0xff, 0x00}, []byte{0x21}, []byte{0x0f, 0xff})
	return
}

func c05Universe(n int) (keys, probes [][]byte) {
	for i := 0; i < n; i++ {
		keys = append(keys, []byte{byte(0x10 * (i + 1))})
	}
	probes = append(probes, []byte{0x05})
	for i := 0; i < n; i++ {
		probes = append(probes, keys[i], []byte{byte(0x10*(i+1) + 5)})
	}
	return
}

type c05World struct {
	rs       *rootmulti.Store
	key      *storetypes.KVStoreKey
	contents map[int64]map[string][]byte
	roots    map[int64][]byte
}

// c05Build: version 1 = subset inserted in the given order; version 2 = first key of the subset deleted, second
// re-valued, one key outside the subset added (so version-1 proofs are served from history and shapes differ).
func c05Build(keys [][]byte, mask, order int) *c05World {
	db := dbm.NewMemDB()
	rs := rootmulti.NewStore(db, false, 0)
	k := storetypes.NewKVStoreKey("acc")
	other := storetypes.NewKVStoreKey("other")
	third := storetypes.NewKVStoreKey("zempty")
	rs.MountStoreWithDB(k, storetypes.StoreTypeIAVL, nil)
	rs.MountStoreWithDB(other, storetypes.StoreTypeIAVL, nil)
	rs.MountStoreWithDB(third, storetypes.StoreTypeIAVL, nil)
	if err := rs.LoadLatestVersion(); err != nil {
		panic(err)
	}
	var subset [][]byte
	for i, kk := range keys {
		if mask&(1<<i) != 0 {
			subset = append(subset, kk)
		}
	}
	ord := make([][]byte, len(subset))
	switch order {
	case 0:
		copy(ord, subset)
	case 1:
		for i := range subset {
			ord[i] = subset[len(subset)-1-i]
		}
	case 2: // inside-out
		lo, hi := (len(subset)-1)/2, (len(subset)-1)/2+1
		for i := 0; i < len(subset); {
			if lo >= 0 {
				ord[i] = subset[lo]
				lo--
				i++
			}
			if hi < len(subset) && i < len(subset) {
				ord[i] = subset[hi]
				hi++
				i++
			}
		}
	}
	w := &c05World{rs: rs, key: k, contents: map[int64]map[string][]byte{}, roots: map[int64][]byte{}}
	st := rs.GetKVStore(k)
	m := map[string][]byte{}
	for _, kk := range ord {
		_ = st.Set(kk, c05Vals[0])
		m[string(kk)] = c05Vals[0]
	}
	_ = rs.GetKVStore(other).Set([]byte("o"), []byte("x"))
	id := rs.Commit()
	w.contents[1], w.roots[1] = copyMap(m), id.Hash
	if len(subset) > 0 {
		_ = st.Delete(subset[0])
		delete(m, string(subset[0]))
	}
	if len(subset) > 1 {
		_ = st.Set(subset[1], c05Vals[1])
		m[string(subset[1])] = c05Vals[1]
	}
	for i, kk := range keys {
		if mask&(1<<i) == 0 {
			_ = st.Set(kk, c05Vals[2])
			m[string(kk)] = c05Vals[2]
			break
		}
	}
	id = rs.Commit()
	w.contents[2], w.roots[2] = copyMap(m), id.Hash
	return w
}

func c05KeyPath(store string, key []byte) string {
	kp := merkle.KeyPath{}
	kp = kp.AppendKey([]byte(store), merkle.KeyEncodingURL)
	kp = kp.AppendKey(key, merkle.KeyEncodingHex)
	return kp.String()
}

type c05Mut struct {
	name  string
	proof *merkle.Proof
	root  []byte
	key   []byte
	store string
	value []byte
	exist bool
	// trueOK: accepting the altered proof is legitimate when the accepted statement is true
	trueOK bool
}

func cloneProof(p *merkle.Proof) *merkle.Proof {
	n := &merkle.Proof{}
	for _, op := range p.Ops {
		n.Ops = append(n.Ops, merkle.ProofOp{Type: op.Type, Key: append([]byte{}, op.Key...), Data: append([]byte{}, op.Data...)})
	}
	return n
}

func flipAt(b []byte, i int) []byte {
	n := append([]byte{}, b...)
	if len(n) == 0 {
		return []byte{1}
	}
	n[(i%len(n)+len(n))%len(n)] ^= 0x01
	return n
}

func cloneRange(p *iavl.RangeProof) *iavl.RangeProof {
	if p == nil {
		return nil
	}
	n := &iavl.RangeProof{}
	cp := func(pl iavl.PathToLeaf) iavl.PathToLeaf {
		if pl == nil {
			return nil
		}
		o := make(iavl.PathToLeaf, len(pl))
		for i, x := range pl {
			o[i] = iavl.ProofInnerNode{Height: x.Height, Size: x.Size, Version: x.Version, Left: append([]byte(nil), x.Left...), Right: append([]byte(nil), x.Right...)}
		}
		return o
	}
	n.LeftPath = cp(p.LeftPath)
	for _, in := range p.InnerNodes {
		n.InnerNodes = append(n.InnerNodes, cp(in))
	}
	for _, l := range p.Leaves {
		n.Leaves = append(n.Leaves, iavl.ProofLeafNode{Key: append([]byte(nil), l.Key...), ValueHash: append([]byte(nil), l.ValueHash...), Version: l.Version})
	}
	return n
}

// c05Mutations enumerates every single-field alteration of a verified (proof, root, key, value).
func c05Mutations(orig *merkle.Proof, root, key, value []byte, exist bool, others [][]byte) []c05Mut {
	var out []c05Mut
	add := func(name string, p *merkle.Proof, r, k []byte, store string, v []byte, ex bool) {
		out = append(out, c05Mut{name: name, proof: p, root: r, key: k, store: store, value: v, exist: ex})
	}
	base := func() *merkle.Proof { return cloneProof(orig) }
	// key / value / root / claim kind
	for _, ok := range others {
		if !bytes.Equal(ok, key) {
			add(fmt.Sprintf("key:other@%x", ok), base(), root, ok, "acc", value, exist)
		}
	}
	// the proof re-targeted consistently (op key and verified key path) at another key: an absence proof does
	// prove the absence of every key in the same gap, so acceptance counts only if the statement is false
	if len(orig.Ops) == 2 {
		for _, ok := range others {
			if !bytes.Equal(ok, key) {
				p := base()
				p.Ops[0].Key = ok
				out = append(out, c05Mut{name: fmt.Sprintf("rekey:other@%x", ok), proof: p, root: root, key: ok, store: "acc", value: value, exist: exist, trueOK: !exist})
			}
		}
	}
	add("store-name:other", base(), root, key, "other", value, exist)
	if exist {
		for _, v := range [][]byte{[]byte("v1"), []byte("v2"), []byte(""), nil, []byte("v1x")} {
			if !bytes.Equal(v, value) { // nil and "" are the same byte string on the ABCI wire
				add(fmt.Sprintf("value:other@%q/nil=%v", v, v == nil), base(), root, key, "acc", v, true)
			}
		}
		add("claim:absence-of-present-key", base(), root, key, "acc", nil, false)
	} else {
		for _, v := range [][]byte{[]byte("v1"), []byte("")} {
			add(fmt.Sprintf("claim:value-of-absent-key@%q", v), base(), root, key, "acc", v, true)
		}
	}
	for _, i := range []int{0, 15, 31} {
		add(fmt.Sprintf("root:flip@%d", i), base(), flipAt(root, i), key, "acc", value, exist)
	}
	add("root:truncated", base(), root[:len(root)-1], key, "acc", value, exist)
	add("root:empty", base(), []byte{}, key, "acc", value, exist)
	// proof op envelope
	if len(orig.Ops) == 2 {
		p := base()
		p.Ops = p.Ops[:1]
		add("ops:drop-multistore-op", p, root, key, "acc", value, exist)
		p = base()
		p.Ops = p.Ops[1:]
		add("ops:drop-iavl-op", p, root, key, "acc", value, exist)
		p = base()
		p.Ops[0], p.Ops[1] = p.Ops[1], p.Ops[0]
		add("ops:swapped", p, root, key, "acc", value, exist)
		p = base()
		p.Ops = append(p.Ops, p.Ops[1])
		add("ops:duplicate-multistore-op", p, root, key, "acc", value, exist)
		p = base()
		if p.Ops[0].Type == iavl.ProofOpIAVLValue {
			p.Ops[0].Type = iavl.ProofOpIAVLAbsence
		} else {
			p.Ops[0].Type = iavl.ProofOpIAVLValue
		}
		add("ops:iavl-op-type-swapped", p, root, key, "acc", value, exist)
		for _, ok := range others {
			if !bytes.Equal(ok, key) {
				p = base()
				p.Ops[0].Key = ok
				add(fmt.Sprintf("ops:iavl-op-key@%x", ok), p, root, key, "acc", value, exist)
			}
		}
		p = base()
		p.Ops[1].Key = []byte("other")
		add("ops:multistore-op-key:other", p, root, key, "acc", value, exist)
	}
	// multistore proof contents
	prt := rootmulti.DefaultProofRuntime()
	if len(orig.Ops) == 2 {
		if opr, err := prt.Decode(orig.Ops[1]); err == nil {
			ms := opr.(*rootmulti.MultiStoreProofOp)
			reenc := func(mut func(p *rootmulti.MultiStoreProof)) *merkle.Proof {
				np := &rootmulti.MultiStoreProof{}
				for _, si := range ms.Proof.StoreInfos {
					x := si
					x.Core.CommitID.Hash = append([]byte(nil), si.Core.CommitID.Hash...)
					np.StoreInfos = append(np.StoreInfos, x)
				}
				mut(np)
				p := base()
				p.Ops[1] = rootmulti.NewMultiStoreProofOp(ms.Key, np).ProofOp()
				return p
			}
			for i := range ms.Proof.StoreInfos {
				i := i
				nm := ms.Proof.StoreInfos[i].Name
				add("multistore:hash-flip@"+nm, reenc(func(p *rootmulti.MultiStoreProof) {
					p.StoreInfos[i].Core.CommitID.Hash = flipAt(p.StoreInfos[i].Core.CommitID.Hash, 3)
				}), root, key, "acc", value, exist)
				add("multistore:version+1@"+nm, reenc(func(p *rootmulti.MultiStoreProof) { p.StoreInfos[i].Core.CommitID.Version++ }), root, key, "acc", value, exist)
				add("multistore:drop@"+nm, reenc(func(p *rootmulti.MultiStoreProof) { p.StoreInfos = append(p.StoreInfos[:i:i], p.StoreInfos[i+1:]...) }), root, key, "acc", value, exist)
				add("multistore:rename@"+nm, reenc(func(p *rootmulti.MultiStoreProof) { p.StoreInfos[i].Name += "x" }), root, key, "acc", value, exist)
			}
			add("multistore:extra-store", reenc(func(p *rootmulti.MultiStoreProof) {
				x := p.StoreInfos[0]
				x.Name = "extra"
				p.StoreInfos = append(p.StoreInfos, x)
			}), root, key, "acc", value, exist)
		}
	}
	// IAVL range proof contents
	opr, err := prt.Decode(orig.Ops[0])
	if err != nil {
		return out
	}
	var rp *iavl.RangeProof
	isValue := false
	switch o := opr.(type) {
	case iavl.ValueOp:
		rp, isValue = o.Proof, true
	case iavl.AbsenceOp:
		rp = o.Proof
	}
	if rp == nil {
		return out
	}
	reenc := func(name string, mut func(p *iavl.RangeProof)) {
		np := cloneRange(rp)
		mut(np)
		p := base()
		if isValue {
			p.Ops[0] = iavl.NewValueOp(orig.Ops[0].Key, np).ProofOp()
		} else {
			p.Ops[0] = iavl.NewAbsenceOp(orig.Ops[0].Key, np).ProofOp()
		}
		add(name, p, root, key, "acc", value, exist)
	}
	junk := tmhash.Sum([]byte("junk"))
	paths := func(p *iavl.RangeProof) []*iavl.PathToLeaf {
		ps := []*iavl.PathToLeaf{&p.LeftPath}
		for i := range p.InnerNodes {
			ps = append(ps, &p.InnerNodes[i])
		}
		return ps
	}
	for pi, path := range paths(rp) {
		for ni := range *path {
			pi, ni := pi, ni
			tag := fmt.Sprintf("@path%d/node%d", pi, ni)
			node := func(p *iavl.RangeProof) *iavl.ProofInnerNode { return &(*paths(p)[pi])[ni] }
			reenc("inner:height+1"+tag, func(p *iavl.RangeProof) { node(p).Height++ })
			reenc("inner:size+1"+tag, func(p *iavl.RangeProof) { node(p).Size++ })
			reenc("inner:version+1"+tag, func(p *iavl.RangeProof) { node(p).Version++ })
			n0 := (*path)[ni]
			if len(n0.Left) > 0 {
				reenc("inner:left-flip"+tag, func(p *iavl.RangeProof) { node(p).Left = flipAt(node(p).Left, 7) })
				reenc("inner:left-dropped"+tag, func(p *iavl.RangeProof) { node(p).Left = nil })
				reenc("inner:left-moved-right"+tag, func(p *iavl.RangeProof) { node(p).Right, node(p).Left = node(p).Left, nil })
			} else {
				reenc("inner:empty-left-filled"+tag, func(p *iavl.RangeProof) { node(p).Left = junk })
			}
			if len(n0.Right) > 0 {
				reenc("inner:right-flip"+tag, func(p *iavl.RangeProof) { node(p).Right = flipAt(node(p).Right, 7) })
				reenc("inner:right-dropped"+tag, func(p *iavl.RangeProof) { node(p).Right = nil })
				reenc("inner:right-moved-left"+tag, func(p *iavl.RangeProof) { node(p).Left, node(p).Right = node(p).Right, nil })
			} else {
				reenc("inner:empty-right-filled"+tag, func(p *iavl.RangeProof) { node(p).Right = junk })
			}
			reenc("inner:dropped"+tag, func(p *iavl.RangeProof) {
				pp := paths(p)[pi]
				*pp = append((*pp)[:ni:ni], (*pp)[ni+1:]...)
			})
			reenc("inner:duplicated"+tag, func(p *iavl.RangeProof) {
				pp := paths(p)[pi]
				d := (*pp)[ni]
				*pp = append((*pp)[:ni+1:ni+1], append(iavl.PathToLeaf{d}, (*pp)[ni+1:]...)...)
			})
		}
	}
	for li := range rp.Leaves {
		li := li
		tag := fmt.Sprintf("@leaf%d", li)
		reenc("leaf:key-changed"+tag, func(p *iavl.RangeProof) { p.Leaves[li].Key = flipAt(p.Leaves[li].Key, 0) })
		reenc("leaf:valuehash-flip"+tag, func(p *iavl.RangeProof) { p.Leaves[li].ValueHash = flipAt(p.Leaves[li].ValueHash, 5) })
		reenc("leaf:version+1"+tag, func(p *iavl.RangeProof) { p.Leaves[li].Version++ })
		reenc("leaf:dropped"+tag, func(p *iavl.RangeProof) { p.Leaves = append(p.Leaves[:li:li], p.Leaves[li+1:]...) })
		reenc("leaf:duplicated"+tag, func(p *iavl.RangeProof) {
			d := p.Leaves[li]
			p.Leaves = append(p.Leaves[:li+1:li+1], append([]iavl.ProofLeafNode{d}, p.Leaves[li+1:]...)...)
		})
	}
	reenc("leaves:extra-leaf-appended", func(p *iavl.RangeProof) {
		p.Leaves = append(p.Leaves, iavl.ProofLeafNode{Key: []byte{0xfe}, ValueHash: tmhash.Sum([]byte("f")), Version: 1})
		p.InnerNodes = append(p.InnerNodes, iavl.PathToLeaf{})
	})
	if len(rp.Leaves) == 2 {
		reenc("leaves:swapped", func(p *iavl.RangeProof) { p.Leaves[0], p.Leaves[1] = p.Leaves[1], p.Leaves[0] })
	}
	return out
}

// c05Forgeries: proofs for content that is NOT in the tree, built from a valid existence proof by attaching a
// forged leaf under the ignored right child of an inner node that already has its left child set
// (the range-proof forgery class fixed upstream in cosmos/iavl v0.19.4).
func c05Forgeries(orig *merkle.Proof, root, key []byte, present map[string][]byte) []c05Mut {
	var out []c05Mut
	prt := rootmulti.DefaultProofRuntime()
	opr, err := prt.Decode(orig.Ops[0])
	if err != nil {
		return nil
	}
	vo, ok := opr.(iavl.ValueOp)
	if !ok || vo.Proof == nil {
		return nil
	}
	for ni := range vo.Proof.LeftPath {
		if len(vo.Proof.LeftPath[ni].Left) == 0 {
			continue
		}
		// forged key must sort after the genuine leaf; choose one that is absent from the tree
		fk := append(append([]byte{}, key...), 0x01)
		if _, ok := present[string(fk)]; ok {
			continue
		}
		fv := []byte("forged-value")
		np := cloneRange(vo.Proof)
		leaf := iavl.ProofLeafNode{Key: fk, ValueHash: tmhash.Sum(fv), Version: 1}
		np.LeftPath[ni].Right = leaf.Hash()
		np.Leaves = append(np.Leaves[:1:1], leaf)
		np.InnerNodes = []iavl.PathToLeaf{{}}
		p := cloneProof(orig)
		p.Ops[0] = iavl.NewValueOp(fk, np).ProofOp()
		out = append(out, c05Mut{name: fmt.Sprintf("forgery:leaf-under-ignored-right-child@node%d", ni), proof: p, root: root, key: fk, store: "acc", value: fv, exist: true})
	}
	return out
}

func c05Verify(p *merkle.Proof, root []byte, store string, key, value []byte, exist bool) (err error) {
	prt := rootmulti.DefaultProofRuntime()
	if pn := safely(func() {
		if exist {
			err = prt.VerifyValue(p, root, c05KeyPath(store, key), value)
		} else {
			err = prt.VerifyAbsence(p, root, c05KeyPath(store, key))
		}
	}); pn != nil {
		return fmt.Errorf("panic: %v", pn)
	}
	return err
}

func proofBytes(p *merkle.Proof) []byte {
	var b bytes.Buffer
	for _, op := range p.Ops {
		b.WriteString(op.Type)
		b.WriteByte(0)
		b.Write(op.Key)
		b.WriteByte(0)
		b.Write(op.Data)
		b.WriteByte(0)
	}
	return b.Bytes()
}

func c05MutClass(name string) string {
	// class used for signatures: the mutation kind without its position ("area:kind@position")
	for i := 0; i < len(name); i++ {
		if name[i] == '@' {
			return name[:i]
		}
	}
	return name
}

// c05RunCase checks one (tree, version, key): completeness, then every mutation. Returns counts.
func c05RunCase(c *ev.Ctx, cs c05Case, keys, probes [][]byte, onlyMutation string) (nver int64, err error) {
	w := c05Build(keys, cs.Mask, cs.Order)
	var key []byte
	fmt.Sscanf(cs.Key, "%x", &key)
	m := w.contents[cs.Version]
	root := w.roots[cs.Version]
	res := w.rs.Query(abci.RequestQuery{Path: "/acc/key", Data: key, Prove: true, Height: cs.Version})
	want, present := m[string(key)]
	if res.Code != 0 || res.Proof == nil {
		e := fmt.Errorf("query with proof for key %x at version %d failed: code %d log %q", key, cs.Version, res.Code, res.Log)
		c.Report("complete/query-failed", e.Error(), cs)
		return 1, e
	}
	if (res.Value == nil) != !present || !bytes.Equal(res.Value, want) {
		e := fmt.Errorf("query returned value %s for key %x at version %d, committed %s", hx(res.Value), key, cs.Version, hx(want))
		c.Report("complete/value", e.Error(), cs)
		return 1, e
	}
	nver++
	if e := c05Verify(res.Proof, root, "acc", key, want, present); e != nil {
		kind := "absence"
		if present {
			kind = "existence"
		}
		e2 := fmt.Errorf("%s proof for key %x at version %d over %s does not verify against the committed root: %v", kind, key, cs.Version, fmtMap(m), e)
		c.Report("complete/"+kind+"-proof-rejected", e2.Error(), cs)
		return nver, e2
	}
	muts := c05Mutations(res.Proof, root, key, want, present, probes)
	if present {
		muts = append(muts, c05Forgeries(res.Proof, root, key, m)...)
	}
	ob := proofBytes(res.Proof)
	for _, mu := range muts {
		if onlyMutation != "" && mu.name != onlyMutation {
			continue
		}
		// a mutation that re-encodes to the identical bytes with identical claim is not an alteration
		if bytes.Equal(proofBytes(mu.proof), ob) && bytes.Equal(mu.root, root) && bytes.Equal(mu.key, key) && mu.store == "acc" && mu.exist == present && bytes.Equal(mu.value, want) && (mu.value == nil) == (want == nil) {
			c.Outcome("mutation-noop")
			continue
		}
		// altering a claim into another TRUE claim is not a forgery (e.g. key changed to another present key with the same value is still false unless proof covers it)
		nver++
		if os.Getenv("VERIF_DEBUG") != "" && onlyMutation != "" {
			fmt.Fprintf(os.Stderr, "DEBUG mutation %s key=%x exist=%v -> %v\n", mu.name, mu.key, mu.exist, c05Verify(mu.proof, mu.root, mu.store, mu.key, mu.value, mu.exist))
		}
		if e := c05Verify(mu.proof, mu.root, mu.store, mu.key, mu.value, mu.exist); e == nil {
			// accepted: is the accepted statement actually true in the committed state?
			tv, tp := m[string(mu.key)]
			stmtTrue := mu.store == "acc" && bytes.Equal(mu.root, root) && ((mu.exist && tp && bytes.Equal(tv, mu.value)) || (!mu.exist && !tp))
			cs2 := cs
			cs2.Mutation = mu.name
			if !stmtTrue {
				e2 := fmt.Errorf("altered proof accepted for a FALSE statement: mutation %q on the proof for key %x (version %d, tree %s): verifier accepts key=%x value=%s exist=%v", mu.name, key, cs.Version, fmtMap(m), mu.key, hx(mu.value), mu.exist)
				c.Report("sound/false-statement/"+c05MutClass(mu.name), e2.Error(), cs2)
				err = e2
			} else if mu.trueOK {
				c.Outcome("retargeted-absence-proof-accepted-for-another-absent-key")
			} else {
				e2 := fmt.Errorf("altered proof still verifies: mutation %q on the proof for key %x (version %d, tree %s)", mu.name, key, cs.Version, fmtMap(m))
				c.Report("sound/malleable/"+c05MutClass(mu.name), e2.Error(), cs2)
				err = e2
			}
		}
	}
	return nver, err
}

func init() {
	register(&Check{ID: "C05", QuickBud: 100 * time.Second, ThorBud: 30 * time.Minute,
		Run: func(c *ev.Ctx) {
			n := 5
			if c.Tier == "thorough" {
				n = 7
			}
			c.Rule = fmt.Sprintf("every subset of %d one-byte keys, and of 5 keys that are prefixes/extensions of one another, x 3 insertion orders committed as version 1, then modified and committed as version 2, in a 3-substore rootmulti.Store; for both versions and every probe key (every key of the universe, keys between, below and above): ABCI store query with proof, verified with the default proof runtime against that version's commit hash (existence with the stored value / absence); then every single-field alteration of key, value, claim kind, root, proof-op envelope, multistore proof (each store hash/version/name, drop, extra) and IAVL range proof (each inner node's height/size/version/left/right: flip, drop, move, fill the empty sibling, drop/duplicate node; each leaf's key/value-hash/version, drop/duplicate/extra/swapped leaves) plus forged leaves hung under an inner node's unused sibling: each must fail to verify; a proof consistently re-targeted at another key may only be accepted for a true statement (an absence proof covers its whole gap). Distinct non-trivial case = (subset, order, version, key) with a non-empty tree", n)
			type job struct{ cs c05Case }
			jobs := make(chan c05Case, 256)
			var wg sync.WaitGroup
			var mu sync.Mutex
			var cases, vers int64
			for w := 0; w < runtime.GOMAXPROCS(0); w++ {
				wg.Add(1)
				go func() {
					defer wg.Done()
					var lc, lv int64
					for cs := range jobs {
						if c.Expired() {
							continue
						}
						keys, probes := c05UniverseNamed(cs.Universe, cs.NKeys)
						nv, _ := c05RunCase(c, cs, keys, probes, "")
						lc++
						lv += nv
					}
					mu.Lock()
					cases += lc
					vers += lv
					mu.Unlock()
				}()
			}
			nprobes := 0
			for _, uni := range []string{"", "prefix"} {
				ukeys, probes := c05UniverseNamed(uni, n)
				nprobes += len(probes)
				for mask := 0; mask < 1<<len(ukeys); mask++ {
					for order := 0; order < 3; order++ {
						for ver := int64(1); ver <= 2; ver++ {
							for _, pk := range probes {
								cs := c05Case{Mask: mask, Order: order, Version: ver, Key: fmt.Sprintf("%x", pk), NKeys: len(ukeys), Universe: uni}
								if mask != 0 {
									c.Distinct(fmt.Sprintf("%s|%d|%d|%d|%x", uni, mask, order, ver, pk))
								}
								jobs <- cs
							}
						}
					}
				}
			}
			close(jobs)
			wg.Wait()
			c.AddStates(cases)
			c.AddTransitions(vers)
			c.AddTraces(cases)
			c.Sample(map[string]interface{}{"subset_mask": 0b10110, "insertion_order": "inside-out", "version": 1, "key": "25", "claim": "absence", "mutations": "≈60-150 single-field alterations + forgeries"})
			c.BoundDone = fmt.Sprintf("universe=%d keys, subsets=%d, orders=3, versions=2, probe keys=%d, proofs=%d, verifications=%d", n, 1<<n, nprobes, cases, vers)
		},
		Replay: func(raw json.RawMessage) (string, error) {
			var cs c05Case
			if err := json.Unmarshal(raw, &cs); err != nil {
				return "", err
			}
			if cs.NKeys == 0 {
				cs.NKeys = 5
			}
			keys, probes := c05UniverseNamed(cs.Universe, cs.NKeys)
			c := ev.NewCtx("C05-replay", "quick", 0, time.Minute)
			_, err := c05RunCase(c, cs, keys, probes, cs.Mutation)
			return fmt.Sprintf("%+v", cs), err
		},
	})
}
