package checks

import (
	"bytes"
	"encoding/binary"
	"encoding/hex"
	"fmt"
	"time"

	"github.com/pokt-network/pocket-core/x/auth"
	authTypes "github.com/pokt-network/pocket-core/x/auth/types"

	"verif/internal/ev"
)

// ---- minimal protobuf wire tools (re-encoding without changing the decoded content) ----

type pbField struct {
	num  uint64
	wt   int
	data []byte // wt 2: payload; wt 0: minimal varint bytes; wt 1/5: fixed bytes
}

func pbParse(b []byte) ([]pbField, bool) {
	var out []pbField
	for len(b) > 0 {
		tag, n := binary.Uvarint(b)
		if n <= 0 {
			return nil, false
		}
		b = b[n:]
		f := pbField{num: tag >> 3, wt: int(tag & 7)}
		switch f.wt {
		case 0:
			v, m := binary.Uvarint(b)
			if m <= 0 {
				return nil, false
			}
			f.data = pbVarint(v, 0)
			b = b[m:]
		case 1:
			if len(b) < 8 {
				return nil, false
			}
			f.data, b = b[:8], b[8:]
		case 5:
			if len(b) < 4 {
				return nil, false
			}
			f.data, b = b[:4], b[4:]
		case 2:
			l, m := binary.Uvarint(b)
			if m <= 0 || uint64(len(b)-m) < l {
				return nil, false
			}
			f.data = b[m : m+int(l)]
			b = b[m+int(l):]
		default:
			return nil, false
		}
		out = append(out, f)
	}
	return out, true
}

// pbVarint encodes v with `pad` superfluous continuation bytes (non-minimal encoding).
func pbVarint(v uint64, pad int) []byte {
	var buf [binary.MaxVarintLen64]byte
	n := binary.PutUvarint(buf[:], v)
	out := append([]byte{}, buf[:n]...)
	for i := 0; i < pad; i++ {
		out[len(out)-1] |= 0x80
		out = append(out, 0x00)
	}
	return out
}

type pbEmitOpt struct {
	padTag, padLen, padVal int // applied to field index `at` only
	at                     int
}

func pbEmit(fs []pbField, o pbEmitOpt) []byte {
	var out []byte
	for i, f := range fs {
		pt, pl, pv := 0, 0, 0
		if i == o.at {
			pt, pl, pv = o.padTag, o.padLen, o.padVal
		}
		out = append(out, pbVarint(f.num<<3|uint64(f.wt), pt)...)
		switch f.wt {
		case 0:
			v, _ := binary.Uvarint(f.data)
			out = append(out, pbVarint(v, pv)...)
		case 2:
			out = append(out, pbVarint(uint64(len(f.data)), pl)...)
			out = append(out, f.data...)
		default:
			out = append(out, f.data...)
		}
	}
	return out
}

func pbUnknown() []pbField {
	return []pbField{
		{num: 15, wt: 0, data: pbVarint(1, 0)},
		{num: 15, wt: 2, data: []byte("x")},
		{num: 16, wt: 5, data: []byte{1, 2, 3, 4}},
		{num: 16, wt: 1, data: []byte{1, 2, 3, 4, 5, 6, 7, 8}},
		{num: 1 << 28, wt: 0, data: pbVarint(7, 0)},
	}
}

func withLen(body []byte, pad int) []byte {
	return append(pbVarint(uint64(len(body)), pad), body...)
}

// reencodings: byte strings different from tx that are candidates for "same signed content".
func reencodings(txb []byte) map[string][]byte {
	out := map[string][]byte{}
	l, n := binary.Uvarint(txb)
	if n <= 0 || int(l) != len(txb)-n {
		return out
	}
	body := txb[n:]
	top, ok := pbParse(body)
	if !ok {
		return out
	}
	cp := func(fs []pbField) []pbField { return append([]pbField{}, fs...) }
	none := pbEmitOpt{at: -1}
	out["length-prefix-nonminimal"] = withLen(body, 1)
	out["length-prefix-nonminimal-2"] = withLen(body, 2)
	for i, f := range top {
		out[fmt.Sprintf("top/field%d-tag-nonminimal", f.num)] = withLen(pbEmit(top, pbEmitOpt{at: i, padTag: 1}), 0)
		if f.wt == 2 {
			out[fmt.Sprintf("top/field%d-length-nonminimal", f.num)] = withLen(pbEmit(top, pbEmitOpt{at: i, padLen: 1}), 0)
		}
		if f.wt == 0 {
			out[fmt.Sprintf("top/field%d-value-nonminimal", f.num)] = withLen(pbEmit(top, pbEmitOpt{at: i, padVal: 1}), 0)
			dup := append(cp(top), f) // scalar repeated with the same value (last one wins)
			out[fmt.Sprintf("top/field%d-repeated", f.num)] = withLen(pbEmit(dup, none), 0)
		}
	}
	for ui, u := range pbUnknown() {
		out[fmt.Sprintf("top/unknown-field-%d-appended", ui)] = withLen(pbEmit(append(cp(top), u), none), 0)
		out[fmt.Sprintf("top/unknown-field-%d-prepended", ui)] = withLen(pbEmit(append([]pbField{u}, top...), none), 0)
	}
	// field order
	if len(top) >= 2 {
		rev := make([]pbField, len(top))
		for i := range top {
			rev[i] = top[len(top)-1-i]
		}
		out["top/fields-reversed"] = withLen(pbEmit(rev, none), 0)
		rot := append(cp(top[1:]), top[0])
		out["top/fields-rotated"] = withLen(pbEmit(rot, none), 0)
	}
	hasMemo := false
	for _, f := range top {
		if f.num == 4 {
			hasMemo = true
		}
	}
	if !hasMemo {
		out["top/empty-memo-explicit"] = withLen(pbEmit(append(cp(top), pbField{num: 4, wt: 2, data: []byte{}}), none), 0)
	}
	// nested messages: Any (1), fee coins (2), signature (3); and the message inside the Any (field 2 of Any)
	for i, f := range top {
		if f.wt != 2 || (f.num != 1 && f.num != 2 && f.num != 3) {
			continue
		}
		inner, ok := pbParse(f.data)
		if !ok {
			continue
		}
		rebuild := func(newInner []byte) []byte {
			t2 := cp(top)
			t2[i] = pbField{num: f.num, wt: 2, data: newInner}
			return withLen(pbEmit(t2, none), 0)
		}
		for ui, u := range pbUnknown()[:2] {
			out[fmt.Sprintf("field%d/unknown-field-%d-appended", f.num, ui)] = rebuild(pbEmit(append(cp(inner), u), none))
		}
		for j, g := range inner {
			out[fmt.Sprintf("field%d/sub%d-tag-nonminimal", f.num, g.num)] = rebuild(pbEmit(inner, pbEmitOpt{at: j, padTag: 1}))
			if g.wt == 2 {
				out[fmt.Sprintf("field%d/sub%d-length-nonminimal", f.num, g.num)] = rebuild(pbEmit(inner, pbEmitOpt{at: j, padLen: 1}))
			}
		}
		if len(inner) >= 2 {
			sw := cp(inner)
			sw[0], sw[1] = sw[1], sw[0]
			out[fmt.Sprintf("field%d/subfields-swapped", f.num)] = rebuild(pbEmit(sw, none))
		}
		if f.num == 1 { // the message itself
			for j, g := range inner {
				if g.num != 2 || g.wt != 2 {
					continue
				}
				msgFs, ok := pbParse(g.data)
				if !ok {
					continue
				}
				rb2 := func(newMsg []byte) []byte {
					in2 := cp(inner)
					in2[j] = pbField{num: 2, wt: 2, data: newMsg}
					return rebuild(pbEmit(in2, none))
				}
				for ui, u := range pbUnknown()[:3] {
					out[fmt.Sprintf("msg/unknown-field-%d-appended", ui)] = rb2(pbEmit(append(cp(msgFs), u), none))
				}
				for k, h := range msgFs {
					out[fmt.Sprintf("msg/field%d-tag-nonminimal", h.num)] = rb2(pbEmit(msgFs, pbEmitOpt{at: k, padTag: 1}))
					if h.wt == 2 {
						out[fmt.Sprintf("msg/field%d-length-nonminimal", h.num)] = rb2(pbEmit(msgFs, pbEmitOpt{at: k, padLen: 1}))
					}
				}
				if len(msgFs) >= 2 {
					rev := make([]pbField, len(msgFs))
					for k := range msgFs {
						rev[k] = msgFs[len(msgFs)-1-k]
					}
					out["msg/fields-reversed"] = rb2(pbEmit(rev, none))
				}
			}
		}
	}
	for k, v := range out {
		if bytes.Equal(v, txb) {
			delete(out, k)
		}
	}
	return out
}

// sameSignedContent: does the variant decode, with the real decoder, to a transaction with identical sign
// bytes, signature, public key and fee?
func sameSignedContent(orig, variant []byte, height int64) bool {
	dec := auth.DefaultTxDecoder(chainCodec())
	a, e1 := dec(orig, height)
	b, e2 := dec(variant, height)
	if e1 != nil || e2 != nil {
		return false
	}
	ta, ok1 := a.(authTypes.StdTx)
	tb, ok2 := b.(authTypes.StdTx)
	if !ok1 || !ok2 {
		return false
	}
	sa, e3 := auth.GetSignBytes(chainID, ta)
	sb, e4 := auth.GetSignBytes(chainID, tb)
	if e3 != nil || e4 != nil || !bytes.Equal(sa, sb) {
		return false
	}
	return bytes.Equal(ta.GetSignature().GetSignature(), tb.GetSignature().GetSignature()) && ta.GetSignature().GetPublicKey() == tb.GetSignature().GetPublicKey() && ta.GetFee().IsEqual(tb.GetFee())
}

func c16Cases(tier string) ([]chainCase, map[string]int) {
	env := defaultEnv()
	resetGlobals(env) // the master encodes and decodes with the same codec schedule as the workers
	stats := map[string]int{}
	var cases []chainCase
	txs := []struct {
		name string
		t    TxSpec
	}{
		{"send", tx("send", "A1", "to", "A2", "amount", "7")},
		{"dao-transfer", tx("gov_dao", "D", "from", "D", "action", "dao_transfer", "to", "A2", "amount", "5")},
		{"node-stake-with-delegators", tx("node_stake", "N3", "node", "N3", "value", "1000000", "chains", "0001", "output", "N3", "delegators", "R1:10+R2:20")},
		{"app-stake", tx("app_stake", "P2", "value", "1000000")},
		{"param-change", tx("gov_param", "G", "from", "G", "key", "pos/MaxValidators", "value", `"1"`)},
		{"send-with-memo", func() TxSpec { t := tx("send", "A2", "to", "A1", "amount", "3"); t.Memo = "hello"; return t }()},
		// passes the ante handler (the fee is charged) and fails in the message handler: it changed state once
		{"send-more-than-balance", tx("send", "A2", "to", "A1", "amount", "99999999")},
	}
	firstHeight := env.BaseHeight + int64(env.Warmup) + 1
	for _, x := range txs {
		orig, err := buildTxBytes(x.t, firstHeight)
		if err != nil {
			panic(err)
		}
		variants := reencodings(orig)
		variants["identical-bytes"] = orig
		// natural re-encoding of a Go map: another entry order
		if x.name == "node-stake-with-delegators" {
			for i := 0; i < 200; i++ {
				b2, _ := buildTxBytesRaw(x.t, firstHeight)
				if !bytes.Equal(b2, orig) {
					variants["msg/map-entries-in-another-order"] = b2
					break
				}
			}
		}
		for vn, vb := range variants {
			if vn != "identical-bytes" && !sameSignedContent(orig, vb, firstHeight) {
				stats["variants-not-equivalent-or-rejected-by-decoder"]++
				continue
			}
			stats["variants-equivalent"]++
			raw := TxSpec{Kind: "raw:" + x.name + ":" + vn, Raw: hex.EncodeToString(vb)}
			first := TxSpec{Kind: "raw:" + x.name + ":original", Raw: hex.EncodeToString(orig)}
			gaps := []int{0, 1}
			if tier == "thorough" {
				gaps = []int{0, 1, 3}
			}
			for _, gap := range gaps {
				x, vn, gap := x, vn, gap
				var ref, sub []BlockSpec
				if gap == 0 {
					ref = []BlockSpec{blk(first)}
					sub = []BlockSpec{blk(first, raw)}
				} else {
					ref = []BlockSpec{blk(first)}
					sub = []BlockSpec{blk(first)}
					for i := 1; i < gap; i++ {
						ref = append(ref, BlockSpec{})
						sub = append(sub, BlockSpec{})
					}
					ref = append(ref, BlockSpec{})
					sub = append(sub, blk(raw))
				}
				class := "reencoded"
				if vn == "identical-bytes" {
					class = "identical"
				}
				cases = append(cases, chainCase{Name: fmt.Sprintf("%s/%s/gap%d", x.name, vn, gap), Class: class, Env: env, Ref: ref, Subject: sub, Want: []string{"balances"},
					Oracle: func(r, s JobResult) (string, string) {
						if r.Blocks[0].Txs[0].Code != 0 && x.name != "send-more-than-balance" {
							return "", "" // the first submission did not take effect: nothing to replay (precision note C16)
						}
						if x.name == "send-more-than-balance" && (r.Blocks[0].Txs[0].Code == 0 || r.Blocks[0].Txs[0].Codespace == "auth") {
							return "", "" // not the intended shape (must fail after the fee was charged)
						}
						if lastHash(r) != lastHash(s) {
							tr := lastTx(s)
							kind := "re-encoded"
							if vn == "identical-bytes" {
								kind = vn
							}
							return "signed-tx-took-effect-twice/" + kind, fmt.Sprintf("the signed transaction %s took effect once, then its %s copy submitted %d block(s) later was executed again (result code %d; additional balance changes %s)", x.t.String(), vn, gap, tr.Code, deltaStr(balanceDelta(r, s)))
						}
						return "", ""
					}})
			}
		}
	}
	// the replayed transaction shared its block with a transaction that was rejected by the ante handler (placed
	// before it): it must be recognised as a duplicate all the same
	{
		orig, err := buildTxBytes(txs[0].t, firstHeight)
		if err != nil {
			panic(err)
		}
		bad := tx("send", "A2", "to", "A1", "amount", "1")
		bad.Fee = "1" // below the required fee: rejected by the ante handler (codespace auth)
		first := TxSpec{Kind: "raw:send:original", Raw: hex.EncodeToString(orig)}
		for _, gap := range []int{1, 2} {
			gap := gap
			ref := []BlockSpec{blk(bad, first)}
			sub := []BlockSpec{blk(bad, first)}
			for i := 1; i < gap; i++ {
				ref, sub = append(ref, BlockSpec{}), append(sub, BlockSpec{})
			}
			ref, sub = append(ref, BlockSpec{}), append(sub, blk(first))
			cases = append(cases, chainCase{Name: fmt.Sprintf("send/identical-bytes-after-ante-failure-in-block/gap%d", gap), Class: "identical", Env: env, Ref: ref, Subject: sub, Want: []string{"balances"},
				Oracle: func(r, s JobResult) (string, string) {
					if len(r.Blocks[0].Txs) < 2 || r.Blocks[0].Txs[0].Code == 0 || r.Blocks[0].Txs[1].Code != 0 {
						return "", "" // not the intended shape
					}
					if lastHash(r) != lastHash(s) {
						return "signed-tx-took-effect-twice/identical-bytes", fmt.Sprintf("a send that was delivered right after an ante-rejected transaction of the same block took effect again when its identical bytes were resubmitted %d block(s) later (result code %d; additional balance changes %s)", gap, lastTx(s).Code, deltaStr(balanceDelta(r, s)))
					}
					return "", ""
				}})
		}
	}
	// a transaction signed by a multi-signature key (its account is funded in a block before): the ante handler takes
	// another path for such signers; the identical bytes must be recognised as a duplicate all the same
	{
		addr := multiAddrHex("A1", "A2")
		fund := blk(tx("send", "A1", "to", addr, "amount", "100000"))
		mt := tx("send", "multi:A1+A2", "from", addr, "to", "A2", "amount", "7")
		bz, err := buildTxBytes(mt, firstHeight+1)
		if err != nil {
			panic(err)
		}
		first := TxSpec{Kind: "raw:multisig-send:original", Raw: hex.EncodeToString(bz)}
		for _, gap := range []int{0, 1, 2} {
			gap := gap
			ref, sub := []BlockSpec{fund}, []BlockSpec{fund}
			if gap == 0 {
				ref, sub = append(ref, blk(first)), append(sub, blk(first, first))
			} else {
				ref, sub = append(ref, blk(first)), append(sub, blk(first))
				for i := 1; i < gap; i++ {
					ref, sub = append(ref, BlockSpec{}), append(sub, BlockSpec{})
				}
				ref, sub = append(ref, BlockSpec{}), append(sub, blk(first))
			}
			cases = append(cases, chainCase{Name: fmt.Sprintf("multisig-send/identical-bytes/gap%d", gap), Class: "identical", Env: env, Ref: ref, Subject: sub, Want: []string{"balances"},
				Oracle: func(r, s JobResult) (string, string) {
					if len(r.Blocks) < 2 || len(r.Blocks[1].Txs) < 1 || r.Blocks[1].Txs[0].Code != 0 {
						return "harness:multisig", fmt.Sprintf("the multi-signature send of the scenario was not accepted the first time: %+v", r.Blocks)
					}
					if lastHash(r) != lastHash(s) {
						return "signed-tx-took-effect-twice/identical-bytes", fmt.Sprintf("a send signed by a 2-of-2 multi-signature key took effect once, then its identical bytes submitted %d block(s) later were executed again (result code %d; additional balance changes %s)", gap, lastTx(s).Code, deltaStr(balanceDelta(r, s)))
					}
					return "", ""
				}})
		}
	}
	return cases, stats
}

// buildTxBytesRaw: one encoding without canonicalisation (used to obtain another map order).
func buildTxBytesRaw(t TxSpec, height int64) ([]byte, error) {
	t2 := t
	args := map[string]string{}
	for k, v := range t.Args {
		args[k] = v
	}
	t2.Args = args
	return buildTxBytesOpt(t2, height, false)
}

func init() {
	register(&Check{ID: "C16", QuickBud: 110 * time.Second, ThorBud: 20 * time.Minute,
		Run: func(c *ev.Ctx) {
			cases, stats := c16Cases(c.Tier)
			c.Rule = "7 signed transactions (one of them charged its fee and then fails in the message handler) x every re-encoding produced by a wire-level generator (non-minimal varints for the length prefix, every tag, every length and every varint value; unknown fields of 5 wire shapes appended/prepended at top level, inside the Any, the message, the signature and the fee; repeated scalar; reversed/rotated/swapped field order; explicit empty optional; map entries in another order) that the real decoder maps to identical sign bytes, signature, key and fee, plus the identical bytes x resubmission in the same block / next block / later: the replica that received the copy must end with the same app hash as the replica that did not. Non-trivial = distinct (transaction, variant, gap)"
			c.Assume("a resubmission counts only after a first submission that changed state (result code 0, or fee charged and message failed)")
			c.Assume("current rules (all features active); before the REDUP activation height identical bytes in the same block were not rejected - historical, not explored")
			for k, v := range stats {
				c.OutcomeN(k, int64(v))
			}
			runChainCases(c, "replay", cases)
			getPool().Close()
		},
		Replay: caseReplayFn(func(spec, name string) *chainCase {
			cases, _ := c16Cases("thorough")
			for _, cs := range cases {
				if cs.Name == name {
					x := cs
					return &x
				}
			}
			return nil
		}),
	})
}

var _ = time.Second
