package checks

import (
	"fmt"
	"time"

	"verif/internal/ev"
)

func c23Cases(tier string) []chainCase {
	var cases []chainCase
	// second environment: N1 already has a reward delegator (R1:10), so an edit can keep the delegator addresses
	// and change only a share
	withDeleg := defaultEnv()
	withDeleg.Setup = append([]TxSpec{}, withDeleg.Setup...)
	withDeleg.Setup[0] = TxSpec{Kind: "node_stake", Signer: "N1", Args: map[string]string{"node": "N1", "value": "3000000", "output": "O1", "chains": "0001", "delegators": "R1:10"}}
	envs := []EnvCfg{defaultEnv(), withDeleg}
	type pre struct {
		name   string
		blocks []BlockSpec
		expect map[string]string // fields the reference record must show (precondition check)
	}
	pres := []pre{
		{"staked", nil, map[string]string{"status": "2", "jailed": "false", "waiting": "false"}},
		{"jailed", []BlockSpec{{Absent: []string{"N1"}}, {Absent: []string{"N1"}}, {Absent: []string{"N1"}}}, map[string]string{"status": "2", "jailed": "true"}},
		{"waiting-to-unstake", []BlockSpec{{}, blk(tx("node_unstake", "N1", "node", "N1", "as", "N1"))}, map[string]string{"status": "2", "waiting": "true"}},
		{"unstaking", []BlockSpec{blk(tx("node_unstake", "N1", "node", "N1", "as", "N1"))}, map[string]string{"status": "1"}},
	}
	type edit struct {
		name string
		args []string
	}
	// current N1: tokens 3000000, chains 0001, output O1, no delegators, url https://n1.example:443
	edits := []edit{
		{"lower-stake", []string{"value", "2000000", "chains", "0001", "output", "O1"}},
		{"same", []string{"value", "3000000", "chains", "0001", "output", "O1"}},
		{"raise-stake", []string{"value", "4000000", "chains", "0001", "output", "O1"}},
		{"new-chains", []string{"value", "3000000", "chains", "0002", "output", "O1"}},
		{"new-url", []string{"value", "3000000", "chains", "0001", "output", "O1", "url", "https://other.example:443"}},
		{"new-output", []string{"value", "3000000", "chains", "0001", "output", "A2"}},
		{"new-delegators", []string{"value", "3000000", "chains", "0001", "output", "O1", "delegators", "R1:25"}},
		{"new-output-and-delegators", []string{"value", "4000000", "chains", "0001", "output", "A2", "delegators", "R2:5"}},
		{"delegator-share-changed", []string{"value", "3000000", "chains", "0001", "output", "O1", "delegators", "R1:100"}},
		{"delegator-kept", []string{"value", "3000000", "chains", "0001", "output", "O1", "delegators", "R1:10"}},
		{"delegator-added", []string{"value", "3000000", "chains", "0001", "output", "O1", "delegators", "R1:10+R2:5"}},
	}
	signers := []string{"N1", "O1", "A2"}
	for ei, env := range envs {
		for _, p := range pres {
			for _, e := range edits {
				for _, sg := range signers {
					p, e, sg := p, e, sg
					args := append([]string{"node", "N1"}, e.args...)
					t := tx("node_stake", sg, args...)
					ref := append(append([]BlockSpec{}, p.blocks...), BlockSpec{})
					sub := append(append([]BlockSpec{}, p.blocks...), blk(t))
					cases = append(cases, chainCase{Name: fmt.Sprintf("env%d/node/%s/%s/by-%s", ei, p.name, e.name, sg), Class: "node-edit-" + p.name, Env: env, Ref: ref, Subject: sub, Want: []string{"balances"},
						Pre: p.blocks,
						PreCheck: func(pr JobResult) string {
							rec := obsRecords(pr, "nodes")["N1"]
							for f, v := range p.expect {
								if rec[f] != v {
									return fmt.Sprintf("pre-state %s: field %s is %q, expected %q (%v)", p.name, f, rec[f], v, rec)
								}
							}
							return ""
						},
						Oracle: func(r, s JobResult) (string, string) {
							before, ok1 := obsRecords(r, "nodes")["N1"]
							after, ok2 := obsRecords(s, "nodes")["N1"]
							if !ok1 && !ok2 {
								return "", "" // the node finished unstaking in both replicas
							}
							if !ok1 {
								return "node-recreated-by-edit", fmt.Sprintf("edit-stake %s (%s) by %s: node N1 no longer exists in the reference but exists after the edit: %v", e.name, p.name, sg, after)
							}
							desc := fmt.Sprintf("edit-stake %s of node N1 (%s) signed by %s, result code %d: record before %v, after %v", e.name, p.name, sg, lastTx(s).Code, before, after)
							if !ok2 {
								return "node-removed-by-edit", desc
							}
							for _, f := range []string{"address", "pubkey", "jailed", "status"} {
								if before[f] != after[f] {
									return "immutable-field-changed/" + f, desc
								}
							}
							var tb, ta int64
							fmt.Sscan(before["tokens"], &tb)
							fmt.Sscan(after["tokens"], &ta)
							if ta < tb {
								return "stake-lowered", desc
							}
							if before["output"] != after["output"] && sg != "O1" {
								return "output-address-changed-by-non-output-signer", desc
							}
							if before["delegators"] != after["delegators"] && sg != "N1" {
								return "delegators-changed-by-non-operator", desc
							}
							if p.name == "waiting-to-unstake" || p.name == "unstaking" {
								for f, v := range before {
									if after[f] != v {
										return "edited-while-" + p.name + "/" + f, desc
									}
								}
							}
							return "", ""
						}})
				}
			}
		}
		// applications
		type aedit struct {
			name string
			args []string
		}
		for _, ae := range []aedit{{"lower-stake", []string{"value", "1000000"}}, {"same", []string{"value", "2000000"}}, {"raise-stake", []string{"value", "3000000"}}, {"new-chains", []string{"value", "2000000", "chains", "0002"}}, {"raise-and-chains", []string{"value", "2500000", "chains", "0001+0002"}}} {
			for _, ap := range []pre{{"staked", nil, map[string]string{"status": "2"}}, {"unstaking", []BlockSpec{blk(tx("app_unstake", "P1"))}, map[string]string{"status": "1"}}} {
				ae, ap := ae, ap
				t := tx("app_stake", "P1", append([]string{"app", "P1"}, ae.args...)...)
				ref := append(append([]BlockSpec{}, ap.blocks...), BlockSpec{})
				sub := append(append([]BlockSpec{}, ap.blocks...), blk(t))
				cases = append(cases, chainCase{Name: fmt.Sprintf("env%d/app/%s/%s", ei, ap.name, ae.name), Class: "app-edit-" + ap.name, Env: env, Ref: ref, Subject: sub, Want: []string{"balances"},
					Oracle: func(r, s JobResult) (string, string) {
						before, ok1 := obsRecords(r, "apps")["P1"]
						after, ok2 := obsRecords(s, "apps")["P1"]
						if !ok1 {
							return "", "" // the application already finished unstaking in the reference: nothing to edit
						}
						desc := fmt.Sprintf("edit-stake %s of application P1 (%s), result code %d: record before %v, after %v", ae.name, ap.name, lastTx(s).Code, before, after)
						if !ok2 {
							return "app-removed-by-edit", desc
						}
						for _, f := range []string{"address", "pubkey", "jailed", "status"} {
							if before[f] != after[f] {
								return "app-immutable-field-changed/" + f, desc
							}
						}
						var tb, ta int64
						fmt.Sscan(before["tokens"], &tb)
						fmt.Sscan(after["tokens"], &ta)
						if ta < tb {
							return "app-stake-lowered", desc
						}
						return "", ""
					}})
			}
		}
	}
	return cases
}

func init() {
	register(&Check{ID: "C23", QuickBud: 110 * time.Second, ThorBud: 20 * time.Minute,
		Run: func(c *ev.Ctx) {
			c.Rule = "node N1 in 4 pre-states (staked, staked+jailed by missed signatures, waiting to unstake, unstaking) x 11 edit-stake messages (lower / same / higher stake, new chains, new URL, new output address, new reward delegators, both, a changed share of an existing delegator, the same delegators, an added delegator), in an environment without and one with an existing reward delegator, x 3 signers (operator, current output address, the proposed new output address), and application P1 in 2 pre-states x 5 edits: each executed in a block of the real application next to a reference replica with an empty block; comparing the record in both: address, public key, jailed flag and status never change, stake never decreases, the output address changes only when the current output address signed, the delegators only when the operator signed, and a waiting or unstaking node is not altered at all"
			runChainCases(c, "editstake", c23Cases(c.Tier))
			getPool().Close()
		},
		Replay: caseReplayFn(func(spec, name string) *chainCase {
			for _, cs := range c23Cases("thorough") {
				if cs.Name == name {
					x := cs
					return &x
				}
			}
			return nil
		}),
	})
}
