package checks

import (
	"fmt"
	"time"

	sdk "github.com/pokt-network/pocket-core/types"
	nodesTypes "github.com/pokt-network/pocket-core/x/nodes/types"

	"verif/internal/ev"
)

func tx(kind, signer string, kv ...string) TxSpec {
	t := TxSpec{Kind: kind, Signer: signer}
	if len(kv) > 0 {
		t.Args = map[string]string{}
		for i := 0; i+1 < len(kv); i += 2 {
			t.Args[kv[i]] = kv[i+1]
		}
	}
	return t
}

func blk(txs ...TxSpec) BlockSpec { return BlockSpec{Txs: txs} }

// ---- menus ----

func menuSends() []BlockSpec {
	return []BlockSpec{
		blk(tx("send", "A1", "to", "A2", "amount", "1")),
		blk(tx("send", "A3", "to", "NEW", "amount", "1")),                       // exactly balance - fee
		blk(tx("send", "A3", "to", "A2", "amount", "2")),                        // one more than the sender can cover after the fee
		blk(tx("send", "A1", "to", "A1", "amount", "5")),                        // to self
		blk(tx("send", "A2", "to", "module:staked_tokens_pool", "amount", "3")), // to a module account
		blk(tx("send", "A1", "to", "A2", "amount", "9989999")),                  // everything except the fee (+1 short)
	}
}

func menuNodes() []BlockSpec {
	return []BlockSpec{
		blk(tx("node_stake", "N3", "value", "1000000", "chains", "0001")),                                        // new node, custodial
		blk(tx("node_stake", "O1", "node", "N1", "value", "4000000", "output", "O1", "chains", "0001+0002")),     // edit-stake by output address: next bin, new chain
		blk(tx("node_stake", "N2", "value", "2000000", "output", "N2", "chains", "0002", "delegators", "R1:50")), // edit chains + delegators by operator
		blk(tx("node_unstake", "N1")),
		blk(tx("node_unstake", "N2")),
		blk(tx("node_unstake", "O1", "node", "N1", "as", "O1")),
		blk(tx("node_unjail", "N2")),
		blk(tx("node_unjail", "O1", "node", "N1", "as", "O1")),
	}
}

func menuApps() []BlockSpec {
	return []BlockSpec{
		blk(tx("app_stake", "P2", "value", "1000000")),
		blk(tx("app_stake", "P1", "value", "3000000", "chains", "0001+0002")), // edit-stake up
		blk(tx("app_stake", "P1", "app", "NEW", "value", "0", "chains", "")),  // transfer to a new key (signed by the current app)
		blk(tx("app_stake", "P1", "app", "P2", "value", "0", "chains", "")),   // transfer to an existing account key
		blk(tx("app_unstake", "P1")),
		blk(tx("app_unstake", "P2")),
	}
}

func menuGov() []BlockSpec {
	return []BlockSpec{
		blk(tx("gov_dao", "D", "action", "dao_transfer", "to", "A2", "amount", "5")),
		blk(tx("gov_dao", "D", "action", "dao_burn", "amount", "7")),
		blk(tx("gov_dao", "D", "action", "dao_transfer", "to", "A2", "amount", "5000001")), // more than the DAO holds
		blk(tx("gov_param", "G", "key", "pos/MaxValidators", "value", `"1"`)),
	}
}

func menuEnv() []BlockSpec {
	return []BlockSpec{
		{},
		{Absent: []string{"N1"}},
		{Absent: []string{"N2"}},
		{Evidence: []string{"N2"}},
		{TimeJump: 3},
		{Proposer: "N2"},
	}
}

func concatMenus(ms ...[]BlockSpec) []BlockSpec {
	var out []BlockSpec
	for _, m := range ms {
		out = append(out, m...)
	}
	return out
}

type chainCheckDef struct {
	id    string
	name  string
	want  []string
	menu  func() []BlockSpec
	depth [2]int // quick, thorough
	rule  string
	// extra runs after the chain search (input-shard evaluators on the real keepers)
	extra func(c *ev.Ctx)
	// moreEnvs: further environments explored at depth envDepth (both tiers)
	moreEnvs []EnvCfg
	envDepth int
	envMenu  func() []BlockSpec // menu of the special environments (default: menu)
}

func registerChainCheck(d chainCheckDef) {
	register(&Check{ID: d.id, QuickBud: 110 * time.Second, ThorBud: 30 * time.Minute,
		Run: func(c *ev.Ctx) {
			depth := d.depth[0]
			envs := []EnvCfg{defaultEnv()}
			if c.Tier == "thorough" {
				depth = d.depth[1]
				envs = append(envs, crossingEnv())
			}
			c.Rule = d.rule + " Explicit-state BFS over the real PocketCoreApp: one transition = one block (InitChain, then BeginBlock/DeliverTx/EndBlock/Commit with the block store and tx indexer fed as Tendermint would) chosen from the menu; states merged on the raw content of all consensus stores + height + block time + indexed tx set + reported validator set; invariants are evaluated on the state reached by every transition. Non-trivial = state reached through at least one successful transaction or validator-set change"
			c.Assume("the chain starts right above height 80000 (empty multistore continued from that version) so that every height-gated mainnet patch is active; one warm-up block stakes the two nodes with output address / reward delegators; the thorough tier adds an environment in which all named features activate inside the explored history")
			c.Assume("each replica runs in a worker process with all process-globals reset; MemDB stands in for goleveldb")
			done := ""
			for i, env := range d.moreEnvs { // the special environments first: they are shallow and must not be cut off by the budget
				m := d.menu
				if d.envMenu != nil {
					m = d.envMenu
				}
				cfg := &chainCfg{Name: fmt.Sprintf("%s-special%d", d.name, i), Env: env, Menu: m(), Depth: d.envDepth, Want: d.want}
				st := chainExplore(c, cfg)
				done += chainDone(c, cfg, st)
			}
			for i, env := range envs {
				cfg := &chainCfg{Name: fmt.Sprintf("%s-env%d", d.name, i), Env: env, Menu: d.menu(), Depth: depth, Want: d.want}
				st := chainExplore(c, cfg)
				done += chainDone(c, cfg, st)
			}
			c.BoundDone = done
			if d.extra != nil {
				d.extra(c)
			}
			getPool().Close()
		},
		Replay: evalOrChainReplayFn,
	})
}

// crossingEnv: legacy genesis nodes, every named feature activates 3 blocks into the explored history.
func crossingEnv() EnvCfg {
	e := defaultEnv()
	e.FeatureHeight = e.BaseHeight + 4
	e.Setup = nil
	e.Genesis = "legacy-nodes"
	return e
}

func init() {
	// slow unstaking: nodes stay in the unstaking state for four blocks, so they can be slashed / jailed meanwhile
	slow := defaultEnv()
	slow.UnstakingBlocks = 4
	slow.MaxValidators = 3
	slashWhileUnstaking := func() []BlockSpec {
		return []BlockSpec{blk(tx("node_unstake", "N1"), tx("node_unstake", "N2")), blk(tx("node_unstake", "N1")), {Evidence: []string{"N1@-3"}}, {Evidence: []string{"N2@-2"}}, {Absent: []string{"N2"}}, {}}
	}
	// genesis without an explicit supply (derived by InitGenesis) and with coin-less accounts among the funded ones
	derived := defaultEnv()
	derived.Genesis = "default-supply"
	registerChainCheck(chainCheckDef{id: "C17", name: "supply", want: []string{"supply"}, depth: [2]int{3, 4}, moreEnvs: []EnvCfg{derived}, envDepth: 2,
		menu: func() []BlockSpec { return concatMenus(menuSends()[:4], menuNodes(), menuApps(), menuGov(), menuEnv()) },
		rule: "Invariant: recorded total supply == sum of the balances of every account incl. module accounts, and every balance is canonical and non-negative, in every reachable state."})
	// challenge / replay burns (reached on chain only through proofs of challenges or replayed relays): evaluated on
	// the real keeper for burns below, at and above the node's stake
	chainInvariants["c19:burns"] = func(r *replica, res *JobResult) {
		acc := newEvalAcc(res)
		defer acc.finish()
		ak, nk, _, _, _ := r.app.VerifKeepers()
		base := r.ctxNow()
		for _, node := range []string{"N1", "N2"} {
			for _, exp := range []int{100, 0} {
				for _, ch := range []int64{1, 2, 500000, 999999, 1000000, 1000001, 1499999, 1500000, 1500001, 2500000, 2500001, 1000000000} {
					ctx, _ := base.CacheContext()
					setStakeWeightParams(ctx, nk, swParams{Floor: 1000000, Ceiling: 2000000, WM: "1", Exp: exp, RTTM: 1})
					np := nk.GetParams(ctx)
					np.StakeMinimum = 1000000
					nk.SetParams(ctx, np)
					v, _ := nk.GetValidator(ctx, caddr(node))
					before := totalSupply(ctx, ak)
					ok, pan := withWatchdog(30*time.Second, func() { nk.BurnForChallenge(ctx, sdk.NewInt(ch), caddr(node)) })
					acc.evals++
					desc := fmt.Sprintf("burn for %d challenges on %s (stake %s, exponent %d/100)", ch, node, v.StakedTokens, exp)
					if !ok || pan != nil {
						acc.viol("burns/panics-or-hangs", desc+fmt.Sprintf(": %v", pan))
						continue
					}
					pool := upokt(ak.GetModuleAccount(ctx, nodesTypes.StakedPoolName).GetCoins())
					sum := sdk.ZeroInt()
					for _, x := range nk.GetAllValidators(ctx) {
						if x.Status == sdk.Staked || x.Status == sdk.Unstaking {
							sum = sum.Add(x.StakedTokens)
						}
					}
					burned := before.Sub(totalSupply(ctx, ak))
					if !pool.Equal(sum) {
						acc.viol("burns/pool-not-sum-of-stakes", desc+fmt.Sprintf(": pool %s, staked+unstaking nodes %s, supply decreased by %s", pool, sum, burned))
					}
					if burned.GT(v.StakedTokens) {
						acc.viol("burns/more-than-stake", desc+fmt.Sprintf(": %s burned", burned))
					}
					if burned.Equal(v.StakedTokens) {
						acc.outcome("burn-whole-stake")
					} else if burned.IsZero() {
						acc.outcome("burn-zero")
					} else {
						acc.outcome("burn-part")
					}
				}
			}
		}
	}
	registerChainCheck(chainCheckDef{id: "C19", name: "nodepool", want: []string{"nodepool"}, depth: [2]int{3, 5},
		extra: func(c *ev.Ctx) {
			runEvalShards(c, "burns", defaultEnv(), nil, "c19:burns", []map[string]string{{"shard": "0"}})
		},
		moreEnvs: []EnvCfg{slow}, envDepth: 5, envMenu: slashWhileUnstaking,
		menu: func() []BlockSpec { return concatMenus(menuNodes(), menuEnv(), menuSends()[4:5]) },
		rule: "Invariant: balance of the node staking pool == sum of staked tokens of all nodes that are staked or unstaking, in every reachable state; the same after challenge burns of 12 sizes (below, at and above the stake and the pool) evaluated on the real keeper."})
	registerChainCheck(chainCheckDef{id: "C20", name: "apppool", want: []string{"apppool"}, depth: [2]int{4, 5},
		menu: func() []BlockSpec {
			return concatMenus(menuApps(), menuEnv()[:1], menuEnv()[4:5], []BlockSpec{blk(tx("send", "A2", "to", "module:application_staked_tokens_pool", "amount", "3"))})
		},
		rule: "Invariant: balance of the application staking pool == sum of staked tokens of all applications that are staked or unstaking, in every reachable state."})
	registerChainCheck(chainCheckDef{id: "C21", name: "nodeindex", want: []string{"nodeindex"}, depth: [2]int{4, 6}, moreEnvs: []EnvCfg{slow}, envDepth: 5, envMenu: slashWhileUnstaking,
		menu: func() []BlockSpec {
			return []BlockSpec{
				blk(tx("node_unstake", "N1")), blk(tx("node_unstake", "N2")),
				blk(tx("node_stake", "N3", "value", "1000000", "chains", "0001+0002")),
				blk(tx("node_stake", "O1", "node", "N1", "value", "4000000", "output", "O1", "chains", "0002")),
				blk(tx("node_unjail", "N2")),
				{Absent: []string{"N2"}}, {Evidence: []string{"N1"}}, {TimeJump: 2}, {},
			}
		},
		rule: "Invariant: staked-by-power index == staked unjailed nodes under their current power; per-chain index == staked nodes per declared chain; unstaking queue == unstaking nodes per completion time (as sets); waiting entries refer to existing staked nodes; in every reachable state."})
	registerChainCheck(chainCheckDef{id: "C22", name: "valset", want: []string{"valset"}, depth: [2]int{3, 5},
		menu: func() []BlockSpec { return concatMenus(menuNodes(), menuEnv(), menuGov()[3:]) },
		rule: "Invariant: the consensus set obtained by applying every reported validator update (InitChain + each EndBlock; zero power removes) == at most MaxValidators staked unjailed nodes of highest power, each with its current power, in every reachable state."})
}
