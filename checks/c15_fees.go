package checks

import (
	"encoding/hex"
	"fmt"
	"time"

	"verif/internal/ev"
)

type c15Msg struct {
	name    string
	tx      TxSpec
	signer  string // account that pays
	balance int64
	succeed bool // message expected to succeed when authentication passes and funds suffice
}

func c15Cases() []chainCase {
	env := defaultEnv()
	var cases []chainCase
	msgs := []c15Msg{
		{"send-ok", tx("send", "A1", "to", "A2", "amount", "7"), "A1", balStd, true},
		{"send-too-much", tx("send", "A1", "to", "A2", "amount", "99999999"), "A1", balStd, false},
		{"send-from-poor", tx("send", "A3", "to", "A2", "amount", "1"), "A3", balSmall, true},
		{"node-unjail-not-jailed", tx("node_unjail", "N2", "node", "N2", "as", "N2"), "N2", 0, false},
		{"app-stake", tx("app_stake", "P2", "value", "1000000"), "P2", balStd, true},
		{"app-unstake-not-an-app", tx("app_unstake", "P2", "app", "P2"), "P2", balStd, false},
		{"gov-param", tx("gov_param", "G", "from", "G", "key", "pos/MaxValidators", "value", `"1"`), "G", balStd, true},
		{"dao-transfer-too-much", tx("gov_dao", "D", "from", "D", "action", "dao_transfer", "to", "A2", "amount", "99999999"), "D", balStd, false},
	}
	type feeV struct {
		name  string
		fee   func(req int64) string
		valid bool                             // coins well-formed
		amt   func(req int64) int64            // uPOKT amount declared (when valid)
		ok    func(req, bal int64) (pass bool) // passes authentication?
	}
	fees := []feeV{
		{"required", func(r int64) string { return fmt.Sprint(r) }, true, func(r int64) int64 { return r }, func(r, b int64) bool { return b >= r }},
		{"required-1", func(r int64) string { return fmt.Sprint(r - 1) }, true, func(r int64) int64 { return r - 1 }, func(r, b int64) bool { return false }},
		{"required+1", func(r int64) string { return fmt.Sprint(r + 1) }, true, func(r int64) int64 { return r + 1 }, func(r, b int64) bool { return b >= r+1 }},
		{"zero", func(r int64) string { return "none" }, true, func(r int64) int64 { return 0 }, func(r, b int64) bool { return false }},
		{"double", func(r int64) string { return fmt.Sprint(2 * r) }, true, func(r int64) int64 { return 2 * r }, func(r, b int64) bool { return b >= 2*r }},
		{"extra-denom", func(r int64) string { return fmt.Sprintf("5aaa,%dupokt", r) }, true, func(r int64) int64 { return r }, func(r, b int64) bool { return false }}, // signer holds no aaa
		{"unsorted-denoms", func(r int64) string { return fmt.Sprintf("%dupokt,5aaa", r) }, false, nil, func(r, b int64) bool { return false }},
		{"duplicate-denom", func(r int64) string { return fmt.Sprintf("%dupokt,%dupokt", r, r) }, false, nil, func(r, b int64) bool { return false }},
		{"negative", func(r int64) string { return fmt.Sprintf("-%d", r) }, false, nil, func(r, b int64) bool { return false }},
	}
	for _, m := range msgs {
		req := requiredFee(m.tx)
		bal := m.balance
		if m.signer == "N2" {
			bal = balStd - 1000000*2 - 10000 // staked 2M and paid one fee in the setup block
		}
		for _, fv := range fees {
			m, fv := m, fv
			t := m.tx
			t.Fee = fv.fee(req)
			for _, twoBlocks := range []bool{false, true} {
				twoBlocks := twoBlocks
				name := fmt.Sprintf("%s/fee-%s/%s", m.name, fv.name, boolStr(twoBlocks, "plus-next-block", "same-block"))
				ref := []BlockSpec{{}}
				sub := []BlockSpec{blk(t)}
				if twoBlocks {
					ref = append(ref, BlockSpec{})
					sub = append(sub, BlockSpec{})
				}
				pass := fv.ok(req, bal)
				var declared int64
				if fv.amt != nil {
					declared = fv.amt(req)
				}
				cases = append(cases, chainCase{Name: name, Class: "fee-" + fv.name, Env: env, Ref: ref, Subject: sub, Want: []string{"balances", "supply"},
					Oracle: func(r, s JobResult) (string, string) {
						d := balanceDelta(r, s)
						tr := s.Blocks[0].Txs[0]
						desc := fmt.Sprintf("%s with declared fee %s (required %d, payer %s holds %d)", t.String(), t.Fee, req, m.signer, bal)
						if !pass {
							if len(d) != 0 || tr.Code == 0 || lastHash(r) != lastHash(s) {
								return "rejected-tx-moved-funds/" + fv.name, fmt.Sprintf("%s must be rejected before/during authentication, but result code %d, balance changes %s, state changed=%v", desc, tr.Code, deltaStr(d), lastHash(r) != lastHash(s))
							}
							return "", ""
						}
						// authenticated: exactly the declared fee leaves the payer for the fee collector
						if !twoBlocks {
							if d["module:fee_collector"] != declared {
								return "fee-collector-delta/" + fv.name, fmt.Sprintf("%s: fee collector changed by %d, declared fee %d (all changes %s, code %d)", desc, d["module:fee_collector"], declared, deltaStr(d), tr.Code)
							}
							if !m.succeed || tr.Code != 0 {
								want := map[string]int64{m.signer: -declared, "module:fee_collector": declared}
								if tr.Code == 0 {
									return "unexpected-success", fmt.Sprintf("%s succeeded although its message cannot succeed", desc)
								}
								if !deltaEq(d, want) {
									return "failed-msg-balances/" + fv.name, fmt.Sprintf("%s: message failed with code %d; balances changed by %s, expected exactly %s", desc, tr.Code, deltaStr(d), deltaStr(want))
								}
							}
						}
						// in every case the payer is down by at least the fee and the books balance
						var sum int64
						for _, v := range d {
							sum += v
						}
						if sum != 0 {
							return "coins-created-or-lost/" + fv.name, fmt.Sprintf("%s: balance changes %s do not add up to zero", desc, deltaStr(d))
						}
						if d[m.signer] > -declared {
							return "payer-charged-less-than-fee/" + fv.name, fmt.Sprintf("%s: payer changed by %d", desc, d[m.signer])
						}
						if twoBlocks && (!m.succeed || tr.Code != 0) && d[m.signer] != -declared {
							return "charged-twice/" + fv.name, fmt.Sprintf("%s: after the following block the payer is down by %d, declared fee %d (changes %s)", desc, -d[m.signer], declared, deltaStr(d))
						}
						return "", ""
					}})
			}
		}
	}
	// "once": the same signed bytes delivered again in the next block move nothing more - whether the first delivery's
	// message succeeded or failed after authentication (the fee of a failed message was charged once, not per copy)
	resetGlobals(env)
	first := env.BaseHeight + int64(env.Warmup) + 1
	for _, m := range msgs {
		m := m
		bz, err := buildTxBytes(m.tx, first)
		if err != nil {
			panic(err)
		}
		raw := TxSpec{Kind: "raw:" + m.name, Signer: m.signer, Raw: hex.EncodeToString(bz)}
		cases = append(cases, chainCase{Name: m.name + "/resubmitted-next-block", Class: "resubmitted", Env: env, Want: []string{"balances", "supply"},
			Ref: []BlockSpec{blk(raw), {}}, Subject: []BlockSpec{blk(raw), blk(raw)},
			Oracle: func(r, s JobResult) (string, string) {
				d := balanceDelta(r, s)
				firstTx, again := s.Blocks[0].Txs[0], lastTx(s)
				if len(d) != 0 || again.Code == 0 {
					return "resubmitted-tx-moved-funds", fmt.Sprintf("%s delivered (code %d) and delivered again as the same bytes in the next block: second result code %d, balance changes caused by the second delivery %s", m.tx.String(), firstTx.Code, again.Code, deltaStr(d))
				}
				return "", ""
			}})
	}
	// multi-signature payer declaring less than the required fee
	addr := multiAddrHex("A1", "A2")
	pre := []BlockSpec{blk(tx("send", "A1", "to", addr, "amount", "100000"))}
	for _, f := range []string{"none", "1", "9999"} {
		f := f
		t := tx("send", "multi:A1+A2", "from", addr, "to", "A2", "amount", "7")
		t.Fee = f
		cases = append(cases, chainCase{Name: "multisig-send/fee-" + f, Class: "fee-below-required-multisig", Env: env, Want: []string{"balances"},
			Ref: append(append([]BlockSpec{}, pre...), BlockSpec{}), Subject: append(append([]BlockSpec{}, pre...), blk(t)),
			Oracle: func(r, s JobResult) (string, string) {
				tr := lastTx(s)
				if tr.Code == 0 || lastHash(r) != lastHash(s) {
					return "fee-below-required-accepted/multisig", fmt.Sprintf("a send signed by a 2-of-2 multi-signature key declaring fee %q (required %d) passed authentication: code %d, balance changes %s", f, requiredFee(t), tr.Code, deltaStr(balanceDelta(r, s)))
				}
				return "", ""
			}})
	}
	// a configured fee-multiplier list (governance parameter auth/FeeMultipliers) with three entries: the required
	// fee of a message type is its base fee times ITS entry, wherever the entry stands in the list
	fmVal := `{"fee_multiplier":[{"key":"stake_validator","multiplier":"3"},{"key":"send","multiplier":"5"},{"key":"app_stake","multiplier":"2"}],"default":"1"}`
	fmPre := []BlockSpec{blk(tx("gov_param", "G", "from", "G", "key", "auth/FeeMultipliers", "value", fmVal))}
	// the list takes effect for the transactions that FOLLOW the change in the same block
	{
		change := tx("gov_param", "G", "from", "G", "key", "auth/FeeMultipliers", "value", fmVal)
		for _, fee := range []string{"10000", "49999", "50000"} {
			fee := fee
			t := tx("send", "A1", "to", "A2", "amount", "7")
			t.Fee = fee
			cases = append(cases, chainCase{Name: "fee-multipliers/changed-earlier-in-the-same-block/send-declared-" + fee, Class: "fee-multiplier", Env: env, Want: []string{"balances"},
				Ref: []BlockSpec{blk(change)}, Subject: []BlockSpec{blk(change, t)},
				Oracle: func(r, s JobResult) (string, string) {
					if r.Blocks[0].Txs[0].Code != 0 {
						return "harness:feemult", "the fee-multiplier change of the scenario was refused"
					}
					d := balanceDelta(r, s)
					mustPass := fee == "50000"
					passed := lastTx(s).Code == 0
					if passed != mustPass || (!mustPass && len(d) != 0) {
						return "fee-multiplier-not-applied", fmt.Sprintf("governance sets the send multiplier to 5 (required fee 50000) and a send declaring %s follows in the same block: result code %d, balance changes %s", fee, lastTx(s).Code, deltaStr(d))
					}
					return "", ""
				}})
		}
	}
	for _, x := range []struct {
		name   string
		t      TxSpec
		signer string
		mult   int64
	}{
		{"send-second-entry", tx("send", "A1", "to", "A2", "amount", "7"), "A1", 5},
		{"app-stake-third-entry", tx("app_stake", "P2", "value", "1000000"), "P2", 2},
		{"node-stake-first-entry", tx("node_stake", "N3", "node", "N3", "value", "1000000", "chains", "0001", "output", "N3"), "N3", 3},
		{"gov-param-default", tx("gov_param", "G", "from", "G", "key", "pos/MaxValidators", "value", `"1"`), "G", 1},
	} {
		base := requiredFee(x.t)
		for _, k := range []int64{1, x.mult - 1, x.mult, x.mult + 1} {
			if k < 1 || (k == x.mult-1 && k == 1 && x.mult != 2) {
				continue
			}
			x, k := x, k
			t := x.t
			t.Fee = fmt.Sprint(base * k)
			if k == x.mult && x.mult > 1 {
				t.Fee = fmt.Sprint(base*k - 1) // one below the configured requirement
			}
			mustPass := base*k >= base*x.mult && !(k == x.mult && x.mult > 1)
			cases = append(cases, chainCase{Name: fmt.Sprintf("fee-multipliers/%s/declared-%s", x.name, t.Fee), Class: "fee-multiplier", Env: env, Want: []string{"balances"},
				Ref: append(append([]BlockSpec{}, fmPre...), BlockSpec{}), Subject: append(append([]BlockSpec{}, fmPre...), blk(t)),
				Oracle: func(r, s JobResult) (string, string) {
					if r.Blocks[0].Txs[0].Code != 0 {
						return "", "" // the parameter change itself was not accepted: nothing configured
					}
					tr := lastTx(s)
					d := balanceDelta(r, s)
					desc := fmt.Sprintf("with auth/FeeMultipliers = %s: %s declaring fee %s (base fee %d x configured multiplier %d = %d required)", fmVal, x.t.String(), t.Fee, base, x.mult, base*x.mult)
					if !mustPass && (len(d) != 0 || tr.Code == 0) {
						return "fee-below-configured-requirement-accepted", fmt.Sprintf("%s: result code %d, balance changes %s", desc, tr.Code, deltaStr(d))
					}
					if mustPass && tr.Codespace == "auth" && tr.Code == 4 {
						return "configured-fee-rejected", fmt.Sprintf("%s: rejected with auth/4", desc)
					}
					return "", ""
				}})
		}
	}
	return cases
}

func init() {
	register(&Check{ID: "C15", QuickBud: 110 * time.Second, ThorBud: 20 * time.Minute,
		Run: func(c *ev.Ctx) {
			c.Rule = "8 transactions (succeeding and failing in their handler, rich / exactly-fee / staked payers) x 9 declared fees (required, required-1, required+1, zero, double, extra denomination the payer lacks, unsorted, duplicate and negative coin lists) x {effect within the block, effect after the following block}, plus multi-signature payers declaring less than the required fee, plus a governance-configured fee-multiplier list of three entries with fees below, at and above each message type's own multiple; each delivered in a block of the real application next to a reference replica without it: if authentication passes the fee collector gains exactly the declared fee and a failing message changes exactly {payer -fee, fee collector +fee}, still true after the next block distributes the fees (never charged twice, books balance to zero); otherwise nothing changes (identical app hash)"
			runChainCases(c, "fees", c15Cases())
			getPool().Close()
		},
		Replay: caseReplayFn(func(spec, name string) *chainCase {
			for _, cs := range c15Cases() {
				if cs.Name == name {
					x := cs
					return &x
				}
			}
			return nil
		}),
	})
}

var _ = time.Second
