package checks

import (
	"bytes"
	"encoding/json"
	"fmt"
	"os"
	"runtime"
	"sort"
	"strings"
	"sync"
	"sync/atomic"
	"time"

	pcrypto "github.com/pokt-network/pocket-core/crypto"
	"github.com/pokt-network/pocket-core/crypto/keys"
	"github.com/pokt-network/pocket-core/crypto/keys/mintkey"
	sdk "github.com/pokt-network/pocket-core/types"

	"verif/internal/ev"
	"verif/internal/seq"
)

var c40Pass = []string{"", "pässwörd ✓"}

func c40Key(i int) pcrypto.Ed25519PrivateKey { return edKey(100 + i).(pcrypto.Ed25519PrivateKey) }

// ---- keybase as a map: explicit-state search to the fixpoint

type c40Op struct {
	kind       string
	key        int // 0,1 fixed keys; 2 = the created key
	p, q       int
	armorRight bool
}

func (o c40Op) String() string {
	switch o.kind {
	case "import-object":
		return fmt.Sprintf("ImportPrivateKeyObject(k%d, pass%d)", o.key, o.p)
	case "delete":
		return fmt.Sprintf("Delete(k%d, pass%d)", o.key, o.p)
	case "unsafe-delete":
		return fmt.Sprintf("UnsafeDelete(k%d)", o.key)
	case "update":
		return fmt.Sprintf("Update(k%d, old pass%d, new pass%d)", o.key, o.p, o.q)
	case "import-armor":
		return fmt.Sprintf("ImportPrivKey(armor of k%d under pass1, decrypt with pass%d, store under pass%d)", o.key, o.p, o.q)
	case "create":
		return fmt.Sprintf("Create(pass%d)", o.p)
	case "export-armor":
		return fmt.Sprintf("ExportPrivKeyEncryptedArmor(k%d, pass%d -> pass%d)", o.key, o.p, o.q)
	}
	return o.kind
}

func c40Ops() []c40Op {
	var ops []c40Op
	for k := 0; k < 2; k++ {
		for p := 0; p < 2; p++ {
			ops = append(ops, c40Op{kind: "import-object", key: k, p: p})
		}
	}
	for k := 0; k < 3; k++ {
		for p := 0; p < 2; p++ {
			ops = append(ops, c40Op{kind: "delete", key: k, p: p})
		}
		ops = append(ops, c40Op{kind: "unsafe-delete", key: k})
	}
	for k := 0; k < 2; k++ {
		for p := 0; p < 2; p++ {
			for q := 0; q < 2; q++ {
				ops = append(ops, c40Op{kind: "update", key: k, p: p, q: q})
			}
		}
	}
	for p := 0; p < 2; p++ {
		ops = append(ops, c40Op{kind: "import-armor", key: 1, p: p, q: 0})
	}
	ops = append(ops, c40Op{kind: "create", p: 1})
	for p := 0; p < 2; p++ {
		ops = append(ops, c40Op{kind: "export-armor", key: 0, p: p, q: 1 - p})
	}
	return ops
}

var c40ArmorK1 string
var c40ArmorOnce sync.Once
var c40DirSeq int64

type c40Sys struct {
	ops     []c40Op
	kb      keys.Keybase
	dir     string
	model   map[int]int // key -> passphrase index
	created pcrypto.PrivateKey
	crAddr  sdk.Address
}

func (s *c40Sys) addr(k int) sdk.Address {
	if k == 2 {
		return s.crAddr
	}
	return sdk.Address(c40Key(k).PublicKey().Address())
}
func (s *c40Sys) Enabled(op int) bool {
	o := s.ops[op]
	if o.kind == "create" {
		return s.crAddr == nil
	}
	if o.key == 2 {
		return s.crAddr != nil
	}
	return true
}
func (s *c40Sys) Key() string {
	var ms []string
	for k, p := range s.model {
		ms = append(ms, fmt.Sprintf("k%d:p%d", k, p))
	}
	sort.Strings(ms)
	l, _ := s.kb.List()
	var ls []string
	for _, kp := range l {
		n := "?"
		for k := 0; k < 3; k++ {
			if a := s.addr(k); a != nil && a.Equals(kp.GetAddress()) {
				n = fmt.Sprintf("k%d", k)
			}
		}
		ls = append(ls, n)
	}
	sort.Strings(ls)
	return fmt.Sprintf("%v|%v|created=%v", ms, ls, s.crAddr != nil)
}
func (s *c40Sys) Close() {
	s.kb.CloseDB()
	if s.dir != "" {
		os.RemoveAll(s.dir)
	}
}

// Observe (called by the explorer after the newest operation of every transition): everything observable about the
// key the operation concerned (Get, export with every passphrase, Sign). The dedup key of the search is the model
// state, so the implementation is observed on every transition, not only when a model state is first reached.
func (s *c40Sys) Observe(op int) (string, string) {
	o := s.ops[op]
	k := o.key
	if o.kind == "create" {
		k = 2
	}
	if sig, what := s.checkKey(k); sig != "" {
		return "after-op/" + sig, fmt.Sprintf("after %s: %s", o, what)
	}
	return "", ""
}

func (s *c40Sys) Apply(op int) (string, string) {
	o := s.ops[op]
	mp, present := s.model[o.key]
	switch o.kind {
	case "import-object":
		kp, err := s.kb.ImportPrivateKeyObject([64]byte(c40Key(o.key)), c40Pass[o.p])
		if present {
			if err == nil {
				return "keybase/import-overwrites", o.String() + " succeeded although the key is already stored"
			}
			return "", ""
		}
		if err != nil || !kp.GetAddress().Equals(s.addr(o.key)) {
			return "keybase/import-fails", fmt.Sprintf("%s: %v (address %v)", o, err, kp.GetAddress())
		}
		s.model[o.key] = o.p
	case "delete":
		err := s.kb.Delete(s.addr(o.key), c40Pass[o.p])
		if present && mp == o.p {
			if err != nil {
				return "keybase/delete-fails", fmt.Sprintf("%s with the right passphrase: %v", o, err)
			}
			delete(s.model, o.key)
		} else if err == nil {
			return "keybase/delete-without-passphrase", fmt.Sprintf("%s succeeded (stored: %v, stored under pass%d)", o, present, mp)
		}
	case "unsafe-delete":
		err := s.kb.UnsafeDelete(s.addr(o.key))
		if present != (err == nil) {
			return "keybase/unsafe-delete", fmt.Sprintf("%s: err=%v, stored=%v", o, err, present)
		}
		delete(s.model, o.key)
	case "update":
		err := s.kb.Update(s.addr(o.key), c40Pass[o.p], c40Pass[o.q])
		if present && mp == o.p {
			if err != nil {
				return "keybase/update-fails", fmt.Sprintf("%s: %v", o, err)
			}
			s.model[o.key] = o.q
		} else if err == nil {
			return "keybase/update-without-passphrase", fmt.Sprintf("%s succeeded (stored: %v under pass%d)", o, present, mp)
		}
	case "import-armor":
		kp, err := s.kb.ImportPrivKey(c40ArmorK1, c40Pass[o.p], c40Pass[o.q])
		if o.p != 1 {
			if err == nil {
				return "keybase/armor-import-with-wrong-passphrase", o.String() + " succeeded"
			}
			return "", ""
		}
		if present {
			if err == nil {
				return "keybase/import-overwrites", o.String() + " succeeded although the key is already stored"
			}
			return "", ""
		}
		if err != nil || !kp.GetAddress().Equals(s.addr(o.key)) {
			return "keybase/import-fails", fmt.Sprintf("%s: %v", o, err)
		}
		s.model[o.key] = o.q
	case "create":
		kp, err := s.kb.Create(c40Pass[o.p])
		if err != nil {
			return "keybase/create-fails", err.Error()
		}
		s.crAddr = kp.GetAddress()
		priv, err := mintkey.UnarmorDecryptPrivKey(kp.PrivKeyArmor, c40Pass[o.p])
		if err != nil || !sdk.Address(priv.PublicKey().Address()).Equals(s.crAddr) {
			return "keybase/create-armor", fmt.Sprintf("the armor returned by Create does not decrypt to the key of the returned address: %v", err)
		}
		s.created = priv
		s.model[2] = o.p
	case "export-armor":
		arm, err := s.kb.ExportPrivKeyEncryptedArmor(s.addr(o.key), c40Pass[o.p], c40Pass[o.q], "hint")
		if present && mp == o.p {
			if err != nil {
				return "keybase/export-fails", fmt.Sprintf("%s: %v", o, err)
			}
			priv, err := mintkey.UnarmorDecryptPrivKey(arm, c40Pass[o.q])
			if err != nil || !bytes.Equal(priv.RawBytes(), c40Key(o.key).RawBytes()) {
				return "keybase/export-wrong-key", fmt.Sprintf("%s: exported armor decrypts to %v (%v)", o, priv, err)
			}
			if p2, err := mintkey.UnarmorDecryptPrivKey(arm, c40Pass[o.p]); err == nil {
				return "keybase/export-opens-with-old-passphrase", fmt.Sprintf("%s: exported armor also opens with the old passphrase (%v)", o, p2 != nil)
			}
		} else if err == nil {
			return "keybase/export-without-passphrase", fmt.Sprintf("%s succeeded (stored: %v under pass%d)", o, present, mp)
		}
	}
	return "", ""
}
func (s *c40Sys) Final() (string, string) {
	l, err := s.kb.List()
	if err != nil {
		return "keybase/list-error", err.Error()
	}
	var got, want []string
	for _, kp := range l {
		got = append(got, kp.GetAddress().String())
	}
	for k := range s.model {
		want = append(want, s.addr(k).String())
	}
	sort.Strings(want)
	if fmt.Sprint(got) != fmt.Sprint(want) {
		return "keybase/list", fmt.Sprintf("List returns %v, stored keys (sorted) %v", got, want)
	}
	for k := 0; k < 3; k++ {
		if sig, what := s.checkKey(k); sig != "" {
			return sig, what
		}
	}
	return "", ""
}

// checkKey: everything observable about one key against the model.
func (s *c40Sys) checkKey(k int) (string, string) {
	{
		a := s.addr(k)
		if a == nil {
			return "", ""
		}
		mp, present := s.model[k]
		kp, err := s.kb.Get(a)
		if present != (err == nil) {
			return "keybase/get", fmt.Sprintf("Get(k%d): err=%v, stored=%v", k, err, present)
		}
		if present && !kp.GetAddress().Equals(a) {
			return "keybase/get", fmt.Sprintf("Get(k%d) returns the key pair of %s", k, kp.GetAddress())
		}
		var orig pcrypto.PrivateKey
		if k == 2 {
			orig = s.created
		} else {
			orig = c40Key(k)
		}
		for p := range c40Pass {
			priv, err := s.kb.ExportPrivateKeyObject(a, c40Pass[p])
			if present && p == mp {
				if err != nil || !bytes.Equal(priv.RawBytes(), orig.RawBytes()) {
					return "keybase/right-passphrase-fails", fmt.Sprintf("k%d stored under pass%d: export with it gives %v (%v)", k, mp, priv, err)
				}
				sig, pub, err := s.kb.Sign(a, c40Pass[p], []byte("msg"))
				if err != nil || !pub.Equals(orig.PublicKey()) || !orig.PublicKey().VerifyBytes([]byte("msg"), sig) {
					return "keybase/sign", fmt.Sprintf("k%d: Sign with the right passphrase: %v", k, err)
				}
			} else if err == nil {
				return "keybase/key-returned-for-wrong-passphrase", fmt.Sprintf("k%d (stored=%v under pass%d): export with pass%d returned a key", k, present, mp, p)
			}
		}
	}
	return "", ""
}

func c40Spec(lazy bool) *seq.Spec {
	ops := c40Ops()
	name := "keybase-db"
	if lazy {
		name = "keybase-lazy"
	}
	return &seq.Spec{Name: name, NumOps: len(ops), Depth: 40, FinalOnNewStatesOnly: true, // Observe covers the concerned key on every transition
		OpName: func(i int) string { return ops[i].String() },
		OpKind: func(i int) string { return ops[i].kind },
		New: func() seq.Sys {
			c40ArmorOnce.Do(func() {
				a, err := mintkey.EncryptArmorPrivKey(c40Key(1), c40Pass[1], "h")
				if err != nil {
					panic(err)
				}
				c40ArmorK1 = a
			})
			s := &c40Sys{ops: ops, model: map[int]int{}}
			if lazy {
				s.dir = fmt.Sprintf("/var/tmp/verif-work/c40-%d-%d", os.Getpid(), atomic.AddInt64(&c40DirSeq, 1))
				s.kb = keys.New("kb", s.dir)
			} else {
				s.kb = keys.NewInMemory()
			}
			return s
		},
	}
}

// ---- armor: passphrases x keys x mutations

type c40ArmorCase struct {
	Key  string `json:"key"`
	Pass int    `json:"passphrase_index"`
}

var c40ArmorPass = []string{"", "a", "A", "a ", "pässwörd ✓", strings.Repeat("long-passphrase-", 8), "\x00a", "päss"}

func c40ArmorKey(name string) pcrypto.PrivateKey {
	switch name {
	case "ed0":
		return edKey(7)
	case "ed1":
		return edKey(8)
	}
	return secpKey(7)
}

func c40Armor1(cs c40ArmorCase, mutations bool, evals *int64) (string, string) {
	key := c40ArmorKey(cs.Key)
	pass := c40ArmorPass[cs.Pass]
	arm, err := mintkey.EncryptArmorPrivKey(key, pass, "hint")
	if err != nil {
		return "armor/encrypt-error", err.Error()
	}
	desc := fmt.Sprintf("%s key under passphrase %q", cs.Key, pass)
	same := func(p pcrypto.PrivateKey) bool {
		return p != nil && bytes.Equal(p.RawBytes(), key.RawBytes()) && fmt.Sprintf("%T", p) == fmt.Sprintf("%T", key)
	}
	*evals++
	got, err := mintkey.UnarmorDecryptPrivKey(arm, pass)
	if err != nil || !same(got) {
		return "armor/right-passphrase-fails", desc + fmt.Sprintf(": decrypting with it gives %v (%v)", got, err)
	}
	for i, other := range c40ArmorPass {
		if i == cs.Pass {
			continue
		}
		*evals++
		got, err := mintkey.UnarmorDecryptPrivKey(arm, other)
		if err == nil {
			return "armor/key-returned-for-wrong-passphrase", desc + fmt.Sprintf(": passphrase %q returned key %v (identical: %v)", other, got != nil, same(got))
		}
	}
	if !mutations {
		return "", ""
	}
	var aj mintkey.ArmoredJson
	if err := json.Unmarshal([]byte(arm), &aj); err != nil {
		return "armor/not-json", err.Error()
	}
	type mut struct {
		name      string
		f         func(a *mintkey.ArmoredJson)
		mustError bool
	}
	flip := func(s string, i int, to byte) string {
		b := []byte(s)
		if b[i] == to {
			to++
		}
		b[i] = to
		return string(b)
	}
	muts := []mut{
		{"kdf=bcrypt", func(a *mintkey.ArmoredJson) { a.Kdf = "bcrypt" }, true},
		{"kdf=empty", func(a *mintkey.ArmoredJson) { a.Kdf = "" }, true},
		{"salt=empty", func(a *mintkey.ArmoredJson) { a.Salt = "" }, true},
		{"salt=non-hex", func(a *mintkey.ArmoredJson) { a.Salt = "zz" + a.Salt[2:] }, true},
		{"salt:first-digit", func(a *mintkey.ArmoredJson) { a.Salt = flip(a.Salt, 0, '0') }, true},
		{"salt:last-digit", func(a *mintkey.ArmoredJson) { a.Salt = flip(a.Salt, len(a.Salt)-1, '0') }, true},
		{"salt:truncated", func(a *mintkey.ArmoredJson) { a.Salt = a.Salt[:len(a.Salt)-2] }, true},
		{"ciphertext=empty", func(a *mintkey.ArmoredJson) { a.Ciphertext = "" }, true},
		{"ciphertext:first-char", func(a *mintkey.ArmoredJson) { a.Ciphertext = flip(a.Ciphertext, 0, 'A') }, true},
		{"ciphertext:middle-char", func(a *mintkey.ArmoredJson) { a.Ciphertext = flip(a.Ciphertext, len(a.Ciphertext)/2, 'A') }, true},
		{"ciphertext:truncated", func(a *mintkey.ArmoredJson) { a.Ciphertext = a.Ciphertext[:len(a.Ciphertext)-4] }, true},
		{"ciphertext:not-base64", func(a *mintkey.ArmoredJson) { a.Ciphertext = "!" + a.Ciphertext[1:] }, true},
		{"secparam", func(a *mintkey.ArmoredJson) { a.SecParam = "1" }, false},
		{"hint", func(a *mintkey.ArmoredJson) { a.Hint = "other" }, false},
	}
	for _, m := range muts {
		a2 := aj
		m.f(&a2)
		js, _ := json.Marshal(a2)
		*evals++
		var got pcrypto.PrivateKey
		var err error
		if p := safely(func() { got, err = mintkey.UnarmorDecryptPrivKey(string(js), pass) }); p != nil {
			return "armor/mutation-panics/" + m.name, desc + fmt.Sprintf(": %v", p)
		}
		if err == nil && !same(got) {
			return "armor/mutated-armor-gives-other-key/" + m.name, desc + ": a different key was returned"
		}
		if err == nil && m.mustError {
			return "armor/mutated-armor-accepted/" + m.name, desc + ": the altered armor still decrypts"
		}
	}
	for _, raw := range []string{"", "{", "[]", "null", `{"kdf":"scrypt"}`} {
		*evals++
		var got pcrypto.PrivateKey
		var err error
		if p := safely(func() { got, err = mintkey.UnarmorDecryptPrivKey(raw, pass) }); p != nil {
			return "armor/garbage-panics", fmt.Sprintf("input %q: %v", raw, p)
		}
		if err == nil {
			return "armor/garbage-accepted", fmt.Sprintf("input %q returned key %v", raw, got)
		}
	}
	return "", ""
}

func init() {
	register(&Check{ID: "C40", QuickBud: 150 * time.Second, ThorBud: 30 * time.Minute,
		Run: func(c *ev.Ctx) {
			c.Rule = "(1) armor: 3 keys (2 ed25519, 1 secp256k1) x 8 passphrases (empty, case/space variants, unicode, leading NUL, 128 chars, prefix of another): the armor decrypts to the identical key with its own passphrase and returns an error for every other passphrase of the set; 14 single-field armor mutations + 5 garbage inputs never yield a different key (and must fail where the field is authenticated); (2) keybase: explicit-state search to the FIXPOINT over import/delete/unsafe-delete/update/import-armor/create/export operations on 2 fixed keys + 1 created key x 2 passphrases on the real in-memory keybase (and the lazy on-disk keybase), each result compared with a map model; in every distinct state List/Get/Export with every passphrase/Sign are compared with the model"
			c.Assume("passphrases that differ only in trailing NUL bytes are the same HMAC key inside PBKDF2/scrypt (zero padding of the key block) and therefore the same passphrase for any scrypt-based scheme; the alphabet contains no such pair")
			c.Assume("scrypt (N=32768) runs unmodified, which bounds the passphrase/key alphabet; the created key's randomness comes from crypto/rand and is learned by the model from the returned key pair")
			var cases []c40ArmorCase
			for _, k := range []string{"ed0", "ed1", "secp"} {
				for p := range c40ArmorPass {
					cases = append(cases, c40ArmorCase{k, p})
				}
			}
			work := make(chan c40ArmorCase, len(cases))
			var wg sync.WaitGroup
			var evals int64
			for w := 0; w < runtime.GOMAXPROCS(0); w++ {
				wg.Add(1)
				go func() {
					defer wg.Done()
					for cs := range work {
						if c.Expired() {
							continue
						}
						var e int64
						mut := c.Tier == "thorough" || cs.Pass%4 == 1 || cs.Key == "secp" && cs.Pass == 4
						if sig, what := c40Armor1(cs, mut, &e); sig != "" {
							c.Report(sig, what, cs)
						}
						atomic.AddInt64(&evals, e)
						c.Distinct(fmt.Sprintf("armor|%v", cs))
					}
				}()
			}
			for _, cs := range cases {
				work <- cs
			}
			close(work)
			wg.Wait()
			c.AddEvals(evals)
			c.OutcomeN("armor-decryptions", evals)
			done := fmt.Sprintf("%d armor decryptions; ", evals)
			for _, lazy := range []bool{false, true} {
				sp := c40Spec(lazy)
				r := seq.Run(c, sp)
				done += fmt.Sprintf("%s: fixpoint=%v after depth %d, states=%d transitions=%d ops=%d; ", sp.Name, r.Complete && r.DepthDone < sp.Depth, r.DepthDone, r.States, r.Transitions, sp.NumOps)
				if !r.Complete {
					c.Cap(fmt.Sprintf("%s stopped at depth %d", sp.Name, r.DepthDone))
				}
			}
			c.AddTraces(c.States)
			c.BoundDone = done
		},
		Replay: func(raw json.RawMessage) (string, error) {
			var probe map[string]json.RawMessage
			_ = json.Unmarshal(raw, &probe)
			if _, ok := probe["spec"]; ok {
				var r seq.Replay
				if err := json.Unmarshal(raw, &r); err != nil {
					return "", err
				}
				return seq.ReplayOps(c40Spec(r.Spec == "keybase-lazy"), r.Idx)
			}
			var cs c40ArmorCase
			if err := json.Unmarshal(raw, &cs); err != nil {
				return "", err
			}
			var e int64
			sig, what := c40Armor1(cs, true, &e)
			if sig != "" {
				return fmt.Sprint(cs), fmt.Errorf("%s: %s", sig, what)
			}
			return fmt.Sprint(cs), nil
		},
	})
}
