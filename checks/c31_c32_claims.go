package checks

import (
	"encoding/json"
	"fmt"
	"sort"
	"strconv"
	"strings"
	"time"

	sdk "github.com/pokt-network/pocket-core/types"
	pc "github.com/pokt-network/pocket-core/x/pocketcore/types"

	"verif/internal/ev"
)

func claimsEnv() EnvCfg {
	e := defaultEnv()
	e.SessionNodeCount = 2 // both staked nodes serve every session: membership does not depend on the selection hash
	e.MaxValidators = 3
	e.BaseRelays = 1000 // P1 (2 POKT) may use 20 relays per session = 10 per node
	e.Proposer = "X"    // proposer rewards do not land on the accounts the monitor watches
	return e
}

type shadowClaim struct {
	Node, App, Chain string
	Session          int64
	Total            int64
	Relays           int // size of the evidence the merkle root was built from
	Expiration       int64
}

func claimKey(node, app, chain string, s int64) string {
	return fmt.Sprintf("%s|%s|%s|%d", node, app, chain, s)
}

func init() {
	// C32: shadow model of the claim store, evaluated after every explored block
	chainMonitors["mon:claims"] = func(r *replica, res *JobResult, bi int, b BlockSpec, br BlockRes, prev, cur *chainSnap) {
		st := r.monState("claims")
		shadow, _ := st["shadow"].(map[string]*shadowClaim)
		if shadow == nil {
			shadow = map[string]*shadowClaim{}
			st["shadow"] = shadow
		}
		_, nk, apk, _, pk := r.app.VerifKeepers()
		ctx := r.ctxNow()
		h := cur.Height
		bps := int64(r.env.BlocksPerSession)
		// expiry happens at the start of the block
		for k, c := range shadow {
			if c.Expiration <= h {
				delete(shadow, k)
				res.Obs["claims-expired"] = 1
			}
		}
		var expectMint int64
		for i, t := range b.Txs {
			if i >= len(br.Txs) || (t.Kind != "claim" && t.Kind != "proof") {
				continue
			}
			ok := br.Txs[i].Code == 0
			node := orDefault(t.Args["node"], t.Signer)
			app := orDefault(t.Args["app"], "P1")
			chain := orDefault(t.Args["chain"], "0001")
			s := r.sessionHeightFor(t.Args["session"], h)
			if t.Args["shift"] != "" { // a header whose height lies that many blocks after the session boundary
				d, _ := strconv.ParseInt(t.Args["shift"], 10, 64)
				s += d
			}
			n := 6
			if t.Args["relays"] != "" {
				n, _ = strconv.Atoi(t.Args["relays"])
			}
			total := int64(n)
			if t.Args["total"] != "" {
				total, _ = strconv.ParseInt(t.Args["total"], 10, 64)
			}
			key := claimKey(node, app, chain, s)
			desc := fmt.Sprintf("%s at height %d (session %d, %d blocks per session, submission window %d sessions)", t, h, s, bps, r.env.ClaimWindow)
			switch t.Kind {
			case "claim":
				if !ok {
					continue
				}
				var why []string
				if (s-1)%bps != 0 {
					why = append(why, "the claimed session height is not the first block of a session")
				}
				if h <= s+bps-1 {
					why = append(why, "the session has not ended")
				}
				if h > s+r.env.ClaimWindow*bps {
					why = append(why, "the claim window has passed (the claim is mature)")
				}
				if sctx, err := ctx.PrevCtx(s); err != nil {
					why = append(why, "no state for the session height")
				} else {
					inApps := false
					for _, a := range apk.GetAllApplications(sctx) {
						if a.Address.Equals(caddr(app)) {
							for _, c := range a.Chains {
								if c == chain {
									inApps = true
								}
							}
							max := pc.MaxPossibleRelays(a, pk.SessionNodeCount(sctx))
							if sdk.NewInt(total).GT(max) {
								why = append(why, fmt.Sprintf("%d relays claimed, the application allows %s per node", total, max))
							}
						}
					}
					if !inApps {
						why = append(why, "the application was not staked for the chain at session start")
					}
					listed, _ := nk.GetValidatorsByChain(sctx, chain)
					in := false
					for _, a := range listed {
						if a.Equals(caddr(node)) {
							in = true
						}
					}
					if ectx, err := ctx.PrevCtx(s + bps - 1); err == nil {
						if v, found := nk.GetValidator(ectx, caddr(node)); !found || v.Jailed {
							in = false
						}
					}
					if !in {
						why = append(why, "the node was not in the session")
					}
					supported := false
					for _, c := range pk.SupportedBlockchains(sctx) {
						if c == chain {
							supported = true
						}
					}
					if !supported {
						why = append(why, "the chain is not supported")
					}
					if total < pk.MinimumNumberOfProofs(sctx) {
						why = append(why, "fewer relays than the minimum")
					}
				}
				if len(why) > 0 {
					res.viol("claims/claim-accepted/"+strings.ReplaceAll(strings.Split(why[0], ",")[0], " ", "-"), desc+": accepted although "+strings.Join(why, "; "))
				}
				shadow[key] = &shadowClaim{Node: node, App: app, Chain: chain, Session: s, Total: total, Relays: n, Expiration: h + r.env.ClaimExpiration*bps}
			case "proof":
				if !ok {
					continue
				}
				c := shadow[key]
				variant := t.Args["variant"]
				switch {
				case c == nil:
					res.viol("claims/proof-accepted/no-claim", desc+": accepted although no claim is pending for it (never made, already paid, or expired)")
				case variant != "":
					res.viol("claims/proof-accepted/invalid-proof-"+variant, desc+": an invalid proof ("+variant+") was accepted")
				case c.Relays != n || c.Total != int64(n):
					res.viol("claims/proof-accepted/other-evidence", desc+fmt.Sprintf(": accepted against a claim of %d relays built from %d", c.Total, c.Relays))
				}
				if c != nil {
					v, _ := nk.GetValidator(ctx, caddr(node))
					nodeR, fees := nk.CalculateRelayReward(ctx, chain, sdk.NewInt(c.Total), v.StakedTokens)
					expectMint += nodeR.Add(fees).Int64()
					delete(shadow, key)
				}
			}
		}
		// payment only through accepted proofs
		// (slashing of an absent validator burns coins: only unexplained growth or shrinkage counts)
		if d := cur.Supply - prev.Supply; d > expectMint || (d < expectMint && len(b.Absent) == 0) {
			res.viol("claims/supply", fmt.Sprintf("height %d %s: total supply changed by %d, accepted proofs justify %d", h, b, d, expectMint))
		}
		// the claim store equals the shadow
		var got, want []string
		for _, c := range pk.GetAllClaims(ctx) {
			got = append(got, fmt.Sprintf("%s total=%d", claimKey(roleOf(c.FromAddress), roleOfPub(mustHex(c.SessionHeader.ApplicationPubKey)), c.SessionHeader.Chain, c.SessionHeader.SessionBlockHeight), c.TotalProofs))
		}
		for k, c := range shadow {
			want = append(want, fmt.Sprintf("%s total=%d", k, c.Total))
		}
		sort.Strings(got)
		sort.Strings(want)
		if fmt.Sprint(got) != fmt.Sprint(want) {
			res.viol("claims/store", fmt.Sprintf("height %d after %s: pending claims %v, expected %v", h, b, got, want))
		}
	}

	register(&Check{ID: "C32", QuickBud: 170 * time.Second, ThorBud: 40 * time.Minute,
		Run: func(c *ev.Ctx) {
			c.Rule = "Explicit-state search over the real application, one transition = one block, histories of 11 blocks with at most 2 (thorough: 3) non-empty blocks chosen from a menu of claims (valid; for the running session; two sessions back; by the other node; over the application's limit; re-claim with another total; for a height that is not a session boundary), proofs (valid; wrong index; wrong leaf; leaf outside the tree; index field altered; too early; for evidence of another size) and environment events (node jailed, application unstaked); after EVERY block a shadow model of the claim store is compared with the real store, every accepted claim is checked against the acceptance conditions evaluated on the historical states (the claimed height starts a session, session over, not mature, node in session at start and not jailed at its end, application staked for a supported chain, relays within the application's per-node limit and above the minimum), every accepted proof must be the valid one for a pending claim, and the total supply may change only by the computed reward of the accepted proofs (so: at most one payment per claim, none for expired ones)"
			c.Assume("evidence is synthesized by the harness (6 distinct signed relay proofs unless stated); the deviation bound counts non-empty blocks")
			env := claimsEnv()
			menu := []BlockSpec{
				{},
				blk(tx("claim", "N1", "session", "cur-1")),
				blk(tx("claim", "N2", "session", "cur-1")),
				blk(tx("claim", "N1", "session", "cur")),
				blk(tx("claim", "N1", "session", "cur-2")),
				blk(tx("claim", "N1", "session", "cur-1", "relays", "11")),
				blk(tx("claim", "N1", "session", "cur-1", "relays", "7")),
				blk(tx("claim", "N1", "session", "cur-1", "shift", "1")), // a height one block after the session boundary
				blk(tx("proof", "N1", "session", "cur-2")),
				blk(tx("proof", "N1", "session", "cur-3")),
				blk(tx("proof", "N1", "session", "cur-2", "variant", "wrong-index")),
				blk(tx("proof", "N1", "session", "cur-2", "variant", "wrong-leaf")),
				blk(tx("proof", "N1", "session", "cur-2", "variant", "foreign-leaf")),
				blk(tx("proof", "N1", "session", "cur-2", "variant", "target-index-only")),
				blk(tx("proof", "N1", "session", "cur-1")),
				blk(tx("proof", "N1", "session", "cur-2", "relays", "7")),
				blk(tx("proof", "N2", "session", "cur-2")),
				{Absent: []string{"N1"}},
				blk(tx("app_unstake", "P1")),
			}
			count := func(hist []int) int {
				n := 0
				for _, i := range hist {
					if i != 0 {
						n++
					}
				}
				return n
			}
			run := func(name string, prefix []BlockSpec, m []BlockSpec, bound, depth int) {
				cfg := &chainCfg{Name: name, Env: env, Prefix: prefix, Menu: m, Depth: depth, Want: []string{"mon:claims"}, PanicSig: "block-execution-panics"}
				cfg.Filter = func(hist []int, next int) bool {
					n := count(hist)
					if next != 0 {
						n++
					}
					return n <= bound
				}
				cfg.KeyExtra = func(hist []int) string { return fmt.Sprint(count(hist)) }
				st := chainExplore(c, cfg)
				c.BoundDone += chainDone(c, cfg, st) + fmt.Sprintf("(at most %d non-empty blocks) ", bound)
			}
			// the complete lifecycle after a pending claim: proof or expiry, re-claims, late and repeated proofs
			pending := []BlockSpec{{}, {}, {}, blk(tx("claim", "N1", "session", "cur-1"))}
			late := []BlockSpec{{}, blk(tx("proof", "N1", "session", "cur-2")), blk(tx("proof", "N1", "session", "cur-3")), blk(tx("proof", "N1", "session", "cur-4")),
				blk(tx("proof", "N1", "session", "cur-2", "variant", "wrong-index")), blk(tx("claim", "N1", "session", "cur-1")), blk(tx("claim", "N1", "session", "cur-2")), blk(tx("claim", "N1", "session", "cur-2", "relays", "7"))}
			if c.Tier == "thorough" {
				run("claims", nil, menu, 2, 12)
				run("claims-b3", nil, menu, 3, 8)
				run("claims-pending", pending, late, 4, 8)
			} else {
				run("claims-pending", pending, late, 2, 7)
				run("claims", nil, menu, 2, 8)
			}
			getPool().Close()
		},
		Replay: chainReplayFn,
	})
}

func mustHex(s string) []byte {
	b := make([]byte, len(s)/2)
	for i := 0; i+1 < len(s); i += 2 {
		v, _ := strconv.ParseUint(s[i:i+2], 16, 8)
		b[i/2] = byte(v)
	}
	return b
}

// ---------------------------------------------------------------- C31

func init() {
	// indices the chain requires for claims of 5..16 relays of session args["session"], in the final state
	chainInvariants["c31:indices"] = func(r *replica, res *JobResult) {
		s, _ := strconv.ParseInt(r.args["session"], 10, 64)
		hdr := pc.SessionHeader{ApplicationPubKey: rawPub("P1"), Chain: "0001", SessionBlockHeight: s}
		var out []string
		for n := int64(5); n <= 16; n++ {
			idx, err := r.requiredProofIndex(hdr, n)
			if err != nil {
				out = append(out, "err")
				continue
			}
			if idx < 0 || idx >= n {
				res.viol("unpredictability/index-out-of-range", fmt.Sprintf("session %d, %d relays claimed: required index %d", s, n, idx))
			}
			out = append(out, fmt.Sprint(idx))
		}
		res.Obs["indices"] = strings.Join(out, ",")
	}

	register(&Check{ID: "C31", QuickBud: 150 * time.Second, ThorBud: 30 * time.Minute,
		Run: func(c *ev.Ctx) {
			c.Rule = "For every (blocks per session, claim submission window) configuration, on the real application: (1) a valid claim for one session is submitted at EVERY height from before the session end to after the window; the set A of heights at which the network accepts it is recorded; (2) the block whose content last influences the required leaf is determined by differential executions: the same history is re-executed with the hash of exactly one block k changed, for every k from the session start to after the window, and the required indices for claims of 5..16 relays are compared (K = the last k that changes them; the hash of block K is public once block K is committed, i.e. for every transaction included at height K+1 or later); every execution also submits the proof at the mirrored index (must be accepted) and at the next index (must be rejected), which binds the harness's index computation to the implementation. Violation iff max(A) >= K+1; (3) with the claim in place, proofs for every leaf index are delivered at every height from the claim's own block up to K: none may be accepted (the entropy block does not exist yet). Indices must lie in [0, relays) and be identical in repeated executions"
			p := getPool()
			type cfgT struct{ bps, win int64 }
			cfgs := []cfgT{{2, 2}, {3, 2}, {4, 2}, {2, 3}}
			if c.Tier == "thorough" {
				cfgs = append(cfgs, cfgT{3, 3}, cfgT{5, 2}, cfgT{4, 3}, cfgT{2, 4}, cfgT{6, 2}, cfgT{3, 4})
			}
			var njobs int64
			for _, cf := range cfgs {
				if c.Expired() {
					c.Cap("stopped by the time budget")
					break
				}
				env := claimsEnv()
				env.BlocksPerSession, env.ClaimWindow = cf.bps, cf.win
				first := env.BaseHeight + int64(env.Warmup) + 1 // first explored height
				S := first
				for (S-1)%cf.bps != 0 {
					S++
				}
				S += cf.bps // a session that starts after the warm-up block
				// claim validation does not insist that the claimed session height is a session boundary: the analysis is
				// repeated for a header one block after the boundary (remainder 2 modulo blocks per session)
				starts := []int64{S}
				if cf.bps >= 3 {
					starts = append(starts, S+1)
				}
				for si, S := range starts {
					E := S + cf.win*cf.bps
					last := E + 2
					name := fmt.Sprintf("bps=%d window=%d", cf.bps, cf.win)
					if si > 0 {
						name += " session height one block after the boundary"
					}
					mk := func(claimAt int64, salt int64, proofAt int64, variant string) Job {
						var bl []BlockSpec
						for h := first; h <= last; h++ {
							b := BlockSpec{}
							if h == claimAt {
								b.Txs = append(b.Txs, TxSpec{Kind: "claim", Signer: "N1", Args: map[string]string{"session": fmt.Sprint(S)}})
							}
							if h == proofAt {
								a := map[string]string{"session": fmt.Sprint(S)}
								if variant != "" {
									a["variant"] = variant
								}
								b.Txs = append(b.Txs, TxSpec{Kind: "proof", Signer: "N1", Args: a})
							}
							if h == salt {
								b.HashSalt = "verif-salted-validators-hash-32b"
							}
							bl = append(bl, b)
						}
						return Job{Env: env, Blocks: bl, Want: []string{"c31:indices"}, Args: map[string]string{"session": fmt.Sprint(S)}}
					}
					codeAt := func(res JobResult, h int64) int {
						for _, b := range res.Blocks {
							if b.Height == h && len(b.Txs) > 0 {
								return int(b.Txs[0].Code)
							}
						}
						return -1
					}
					// (1) acceptance heights
					var A []int64
					for h := S; h <= last; h++ {
						job := mk(h, 0, 0, "")
						res := p.Exec(job)
						njobs++
						if res.Err != "" {
							c.HarnessError(name + ": " + res.Err)
							continue
						}
						for _, v := range res.Viols {
							c.Report(v.Sig, v.What+" ["+name+"]", chainReplay{Spec: "c31", Env: env, Blocks: job.Blocks, Want: job.Want})
						}
						if codeAt(res, h) == 0 {
							A = append(A, h)
						}
						c.Distinct(fmt.Sprintf("%s|claim@%d", name, h))
					}
					if len(A) == 0 {
						c.HarnessError(name + ": no height accepts the claim")
						continue
					}
					maxA := A[len(A)-1]
					// (2) which block's hash decides the index
					base := mk(S+cf.bps, 0, E+1, "")
					b0 := p.Exec(base)
					b1 := p.Exec(base)
					njobs += 2
					if b0.Err != "" || fmt.Sprint(b0.Obs["indices"]) != fmt.Sprint(b1.Obs["indices"]) {
						if b0.Err != "" {
							c.HarnessError(name + ": " + b0.Err)
						} else {
							c.Report("unpredictability/index-not-deterministic", fmt.Sprintf("%s: the same history gave required indices %v and %v", name, b0.Obs["indices"], b1.Obs["indices"]), chainReplay{Spec: "c31", Env: env, Blocks: base.Blocks, Want: base.Want})
						}
						continue
					}
					// the mirrored index was rejected: which index does the chain accept, if any? (proofs for every index,
					// one transaction each, on the same history)
					mismatch := func(salt int64, code int) {
						all := mk(S+cf.bps, salt, 0, "")
						for i := range all.Blocks {
							if first+int64(i) == E+1 {
								for idx := 0; idx < 6; idx++ {
									all.Blocks[i].Txs = append(all.Blocks[i].Txs, TxSpec{Kind: "proof", Signer: "N1", Args: map[string]string{"session": fmt.Sprint(S), "index": fmt.Sprint(idx)}})
								}
							}
						}
						ra := p.Exec(all)
						njobs++
						accepted := -1
						for _, b := range ra.Blocks {
							if b.Height == E+1 {
								for ti, t := range b.Txs {
									if t.Code == 0 {
										accepted = ti
									}
								}
							}
						}
						if accepted < 0 {
							c.HarnessError(fmt.Sprintf("%s: no proof index is accepted at height %d (mirrored index rejected with code %d)", name, E+1, code))
							return
						}
						c.Report("unpredictability/leaf-not-selected-by-the-documented-block", fmt.Sprintf("%s, session %d: at height %d the chain rejects the proof for the leaf selected by (hash of the block at session height + window x blocks per session = %d, session header, relay count) and accepts the proof for leaf %d instead: the leaf is selected by other data than the documented entropy block", name, S, E+1, E, accepted),
							chainReplay{Spec: "c31", Env: env, Blocks: all.Blocks, Want: []string{"c31:indices"}})
					}
					if codeAt(b0, E+1) != 0 {
						mismatch(0, codeAt(b0, E+1))
						continue
					}
					wrong := p.Exec(mk(S+cf.bps, 0, E+1, "wrong-index"))
					njobs++
					if codeAt(wrong, E+1) == 0 {
						c.Report("unpredictability/other-index-accepted", name+": a proof for the index after the required one was accepted", chainReplay{Spec: "c31", Env: env, Blocks: mk(S+cf.bps, 0, E+1, "wrong-index").Blocks})
					}
					K := int64(-1)
					for k := S; k <= last; k++ {
						job := mk(S+cf.bps, k, E+1, "")
						res := p.Exec(job)
						njobs++
						if res.Err != "" {
							c.HarnessError(name + ": " + res.Err)
							continue
						}
						if k <= E && codeAt(res, E+1) != 0 {
							mismatch(k, codeAt(res, E+1))
						}
						if fmt.Sprint(res.Obs["indices"]) != fmt.Sprint(b0.Obs["indices"]) {
							K = k
						}
						c.Distinct(fmt.Sprintf("%s|salt@%d", name, k))
					}
					// (3) no proof is accepted while the entropy block does not exist yet: at every height p from the claim's own
					// block up to K, proofs for EVERY leaf index are delivered (one transaction per index, after the claim);
					// an accepted one had its leaf selected by something other than the hash of block K, i.e. by data the
					// servicer knew when it committed the claim
					if K > 0 {
						for pth := S + cf.bps; pth <= K; pth++ {
							job := mk(S+cf.bps, 0, 0, "")
							for i := range job.Blocks {
								if first+int64(i) == pth {
									for idx := 0; idx < 6; idx++ {
										job.Blocks[i].Txs = append(job.Blocks[i].Txs, TxSpec{Kind: "proof", Signer: "N1", Args: map[string]string{"session": fmt.Sprint(S), "index": fmt.Sprint(idx)}})
									}
								}
							}
							res := p.Exec(job)
							njobs++
							if res.Err != "" {
								c.HarnessError(name + ": " + res.Err)
								continue
							}
							for _, b := range res.Blocks {
								if b.Height != pth {
									continue
								}
								for ti, t := range b.Txs {
									if t.Code == 0 && !(pth == S+cf.bps && ti == 0) {
										c.Report("unpredictability/proof-accepted-before-entropy-block",
											fmt.Sprintf("%s, session %d claimed in block %d: a proof (transaction %d of the block) is accepted in block %d, although the required leaf is decided by the hash of block %d, which does not exist before block %d is committed: the leaf was selected from data known when the claim was committed", name, S, S+cf.bps, ti, pth, K, K),
											chainReplay{Spec: "c31", Env: env, Blocks: job.Blocks, Want: []string{"c31:indices"}})
									}
								}
							}
							c.Distinct(fmt.Sprintf("%s|early-proof@%d", name, pth))
						}
					}
					c.Outcome(fmt.Sprintf("%s: claims accepted at heights %d..%d (session %d..%d), index decided by the hash of block %d", name, A[0], maxA, S, S+cf.bps-1, K))
					if K < 0 {
						c.Report("unpredictability/index-independent-of-block-hashes", name+": no block hash between the session start and the end of the window influences the required index", chainReplay{Spec: "c31", Env: env, Blocks: base.Blocks})
						continue
					}
					if maxA >= K+1 {
						c.Report(fmt.Sprintf("unpredictability/claim-accepted-after-entropy-block/overlap-%d", maxA-K),
							fmt.Sprintf("%s, session %d: a claim is still accepted in block %d, but the required leaf is decided by the hash of block %d, which is final (and part of block %d's own header) before any transaction of block %d is chosen", name, S, maxA, K, K+1, maxA),
							chainReplay{Spec: "c31", Env: env, Blocks: mk(maxA, 0, E+1, "").Blocks, Want: []string{"c31:indices"}})
					}
				}
			}
			c.AddStates(njobs)
			c.AddTransitions(njobs)
			c.AddTraces(njobs)
			c.BoundDone = fmt.Sprintf("%d configurations, %d executions on the real app", len(cfgs), njobs)
			getPool().Close()
		},
		Replay: func(raw json.RawMessage) (string, error) {
			var r chainReplay
			if err := json.Unmarshal(raw, &r); err != nil {
				return "", err
			}
			res := runJob(Job{Env: r.Env, Blocks: r.Blocks, Want: r.Want})
			desc := fmt.Sprint(blocksText(r.Blocks))
			for _, b := range res.Blocks {
				for _, t := range b.Txs {
					if t.Code == 0 {
						desc += fmt.Sprintf(" | tx accepted at %d", b.Height)
					}
				}
			}
			if res.Err != "" {
				return desc, fmt.Errorf("harness error: %s", res.Err)
			}
			return desc, fmt.Errorf("the recorded history re-executed: accepted claim/proof transactions and their heights are listed in the description; relating them to the entropy block needs the differential runs of the full check")
		},
	})
}
