package checks

import (
	"bytes"
	"crypto/sha256"
	"fmt"
	"strings"

	"github.com/pokt-network/pocket-core/store/rootmulti"
	storetypes "github.com/pokt-network/pocket-core/store/types"
	dbm "github.com/tendermint/tm-db"

	"verif/internal/dump"
)

// Shared harness for the multistore properties (C04, C06, C07, C08, C09, C10): a real
// rootmulti.Store over a MemDB, written through a CacheMultiStore that is flushed at commit
// (as baseapp does), plus a per-version map model.

type msWrite struct {
	store int
	del   bool
	key   []byte
	val   []byte
	trans bool // write goes to a transient store
}

type msCommit struct {
	ver      int64
	contents []map[string][]byte // per persistent store
	id       storetypes.CommitID
	block    []msWrite
}

type msView struct {
	ver      int64
	kind     string
	ms       storetypes.MultiStore
	openedAt string // (#commits, #pending writes) when the view was opened
}

type msCfg struct {
	nStores    int
	nTrans     int
	keys       [][]byte
	vals       [][]byte
	bounds     [][]byte
	cache      bool
	iavlCache  int64
	maxCommits int
	viewKinds  []string // "lazy", "cms" : kinds of historical views offered as ops
	maxViews   int
	reopenOp   bool // offer "close and reopen the store on the same DB" as an operation (once)
	// direct: block writes go straight to the root multistore's live stores (as this application's deliver
	// state does) instead of through a cache multistore that is written at commit
	direct   bool
	final    func(s *msSys) (string, string)
	onCommit func(s *msSys, id storetypes.CommitID) (string, string)
}

type msOp struct {
	kind  string // set del commit tset view
	store int
	key   []byte
	val   []byte
	ver   int64
	vkind string
}

func (o msOp) String() string {
	switch o.kind {
	case "set":
		return fmt.Sprintf("set(s%d,%x,%q)", o.store, o.key, o.val)
	case "tset":
		return fmt.Sprintf("tset(t%d,%x,%q)", o.store, o.key, o.val)
	case "del":
		return fmt.Sprintf("del(s%d,%x)", o.store, o.key)
	case "view":
		return fmt.Sprintf("view(%s@%d)", o.vkind, o.ver)
	}
	return o.kind
}

func msOps(cfg *msCfg) []msOp {
	var ops []msOp
	for s := 0; s < cfg.nStores; s++ {
		for _, k := range cfg.keys {
			for _, v := range cfg.vals {
				ops = append(ops, msOp{kind: "set", store: s, key: k, val: v})
			}
			ops = append(ops, msOp{kind: "del", store: s, key: k})
		}
	}
	for s := 0; s < cfg.nTrans; s++ {
		ops = append(ops, msOp{kind: "tset", store: s, key: cfg.keys[0], val: cfg.vals[0]})
	}
	ops = append(ops, msOp{kind: "commit"})
	if cfg.reopenOp {
		ops = append(ops, msOp{kind: "reopen"})
	}
	for _, vk := range cfg.viewKinds {
		for v := 1; v <= cfg.maxCommits; v++ {
			ops = append(ops, msOp{kind: "view", ver: int64(v), vkind: vk})
		}
	}
	return ops
}

type msSys struct {
	cfg     *msCfg
	ops     []msOp
	db      *dbm.MemDB
	rs      *rootmulti.Store
	skeys   []*storetypes.KVStoreKey
	tkeys   []*storetypes.TransientStoreKey
	cms     storetypes.CacheMultiStore
	working []map[string][]byte
	tmodel  []map[string][]byte
	pending []msWrite
	commits []msCommit
	views   []msView
	reopens int
}

func msOpen(db dbm.DB, cfg *msCfg, cache bool, iavlCache int64) (*rootmulti.Store, []*storetypes.KVStoreKey, []*storetypes.TransientStoreKey) {
	rs := rootmulti.NewStore(db, cache, iavlCache)
	var sk []*storetypes.KVStoreKey
	var tk []*storetypes.TransientStoreKey
	for i := 0; i < cfg.nStores; i++ {
		k := storetypes.NewKVStoreKey(fmt.Sprintf("store%d", i))
		sk = append(sk, k)
		rs.MountStoreWithDB(k, storetypes.StoreTypeIAVL, nil)
	}
	for i := 0; i < cfg.nTrans; i++ {
		k := storetypes.NewTransientStoreKey(fmt.Sprintf("trans%d", i))
		tk = append(tk, k)
		rs.MountStoreWithDB(k, storetypes.StoreTypeTransient, nil)
	}
	return rs, sk, tk
}

func newMsSys(cfg *msCfg, ops []msOp) *msSys {
	s := &msSys{cfg: cfg, ops: ops, db: dbm.NewMemDB()}
	s.rs, s.skeys, s.tkeys = msOpen(s.db, cfg, cfg.cache, cfg.iavlCache)
	if err := s.rs.LoadLatestVersion(); err != nil {
		panic(err)
	}
	for i := 0; i < cfg.nStores; i++ {
		s.working = append(s.working, map[string][]byte{})
	}
	for i := 0; i < cfg.nTrans; i++ {
		s.tmodel = append(s.tmodel, map[string][]byte{})
	}
	return s
}

func (s *msSys) Close() {}

func (s *msSys) latest() int64 { return int64(len(s.commits)) }

func (s *msSys) Enabled(i int) bool {
	o := s.ops[i]
	switch o.kind {
	case "commit":
		return len(s.commits) < s.cfg.maxCommits
	case "view":
		return o.ver <= s.latest() && len(s.views) < s.cfg.maxViews
	case "reopen":
		return s.reopens == 0 && len(s.pending) == 0 && s.cms == nil && len(s.commits) > 0
	}
	return true
}

func (s *msSys) block() storetypes.MultiStore {
	if s.cfg.direct {
		return s.rs
	}
	if s.cms == nil {
		s.cms = s.rs.CacheMultiStore()
	}
	return s.cms
}

func (s *msSys) Apply(i int) (sig, what string) {
	o := s.ops[i]
	p := safely(func() { sig, what = s.apply(o) })
	if p != nil {
		return o.kind + "/panic", fmt.Sprintf("%s panicked: %v", o, p)
	}
	return
}

func (s *msSys) apply(o msOp) (string, string) {
	switch o.kind {
	case "set":
		_ = s.block().GetKVStore(s.skeys[o.store]).Set(o.key, o.val)
		s.working[o.store][string(o.key)] = o.val
		s.pending = append(s.pending, msWrite{store: o.store, key: o.key, val: o.val})
	case "del":
		_ = s.block().GetKVStore(s.skeys[o.store]).Delete(o.key)
		delete(s.working[o.store], string(o.key))
		s.pending = append(s.pending, msWrite{store: o.store, del: true, key: o.key})
	case "tset":
		_ = s.block().GetKVStore(s.tkeys[o.store]).Set(o.key, o.val)
		s.tmodel[o.store][string(o.key)] = o.val
		s.pending = append(s.pending, msWrite{store: o.store, key: o.key, val: o.val, trans: true})
	case "commit":
		if s.cms != nil {
			s.cms.Write()
			s.cms = nil
		}
		id := s.rs.Commit()
		want := s.latest() + 1
		if id.Version != want {
			return "commit/version", fmt.Sprintf("Commit returned version %d, expected %d", id.Version, want)
		}
		if got := s.rs.LastCommitID(); got.Version != id.Version || !bytes.Equal(got.Hash, id.Hash) {
			return "commit/lastcommitid", fmt.Sprintf("LastCommitID %v differs from the id Commit returned %v", got, id)
		}
		var cont []map[string][]byte
		for _, m := range s.working {
			cont = append(cont, copyMap(m))
		}
		s.commits = append(s.commits, msCommit{ver: want, contents: cont, id: id, block: s.pending})
		s.pending = nil
		for i := range s.tmodel {
			s.tmodel[i] = map[string][]byte{}
		}
		if s.cfg.onCommit != nil {
			if sig, what := s.cfg.onCommit(s, id); sig != "" {
				return sig, what
			}
		}
	case "reopen":
		s.rs, s.skeys, s.tkeys = msOpen(s.db, s.cfg, s.cfg.cache, s.cfg.iavlCache)
		if err := s.rs.LoadLatestVersion(); err != nil {
			return "reopen/error", err.Error()
		}
		s.views = nil
		s.reopens++
	case "view":
		var ms storetypes.MultiStore
		switch o.vkind {
		case "lazy":
			st, err := s.rs.LoadLazyVersion(o.ver)
			if err != nil {
				return "view/error", fmt.Sprintf("LoadLazyVersion(%d) failed at latest %d: %v", o.ver, s.latest(), err)
			}
			ms = (*st).(storetypes.MultiStore)
		case "cms":
			c, err := s.rs.CacheMultiStoreWithVersion(o.ver)
			if err != nil {
				return "view/error", fmt.Sprintf("CacheMultiStoreWithVersion(%d) failed at latest %d: %v", o.ver, s.latest(), err)
			}
			ms = c
		}
		s.views = append(s.views, msView{ver: o.ver, kind: o.vkind, ms: ms, openedAt: fmt.Sprintf("%d/%d", len(s.commits), len(s.pending))})
	}
	return "", ""
}

func (s *msSys) Key() string {
	var sb strings.Builder
	it, _ := s.db.Iterator(nil, nil)
	for ; it.Valid(); it.Next() {
		sb.Write(it.Key())
		sb.WriteString("=")
		sb.Write(it.Value())
		sb.WriteString(";")
	}
	it.Close()
	for i, m := range s.working {
		fmt.Fprintf(&sb, "|w%d:%s", i, fmtMap(m))
	}
	for i, m := range s.tmodel {
		fmt.Fprintf(&sb, "|t%d:%s", i, fmtMap(m))
	}
	for _, v := range s.views {
		fmt.Fprintf(&sb, "|v:%s@%d/%s", v.kind, v.ver, v.openedAt)
	}
	// pending writes matter only through `working` plus the set of dirtied keys
	dirty := map[string]bool{}
	for _, w := range s.pending {
		dirty[fmt.Sprintf("%d/%x/%v", w.store, w.key, w.trans)] = true
	}
	var ds []string
	for k := range dirty {
		ds = append(ds, k)
	}
	sortStrings(ds)
	sb.WriteString("|d:" + strings.Join(ds, ","))
	fmt.Fprintf(&sb, "|r%d", s.reopens)
	if s.cfg.cache {
		// the height cache is process state that is not in the DB: which heights it holds depends on
		// when the store was (re)opened
		fmt.Fprintf(&sb, "|cache:%s", dumpCache(s.rs))
	}
	h := sha256.Sum256([]byte(sb.String()))
	return string(h[:16])
}

func (s *msSys) Final() (sig, what string) {
	if s.cfg.final == nil {
		return "", ""
	}
	p := safely(func() { sig, what = s.cfg.final(s) })
	if p != nil {
		return "panic", fmt.Sprintf("observation panicked: %v", p)
	}
	return
}

// msObserveStore compares every read of one KVStore with a map model.
func msObserveStore(label string, kv storetypes.KVStore, m map[string][]byte, keys, bounds [][]byte) (string, string) {
	for _, k := range keys {
		got, _ := kv.Get(k)
		want, ok := m[string(k)]
		if (got == nil) != !ok || !bytes.Equal(got, want) {
			return "get", fmt.Sprintf("%s: Get(%x)=%s, committed state has %s present=%v", label, k, hx(got), hx(want), ok)
		}
		h, _ := kv.Has(k)
		if h != ok {
			return "has", fmt.Sprintf("%s: Has(%x)=%v, committed state %v", label, k, h, ok)
		}
	}
	for _, st := range bounds {
		for _, en := range bounds {
			for _, asc := range []bool{true, false} {
				var it storetypes.Iterator
				if asc {
					it, _ = kv.Iterator(st, en)
				} else {
					it, _ = kv.ReverseIterator(st, en)
				}
				got, e := drain(it, 64)
				want := modelRange(m, st, en, asc)
				if e != "" || !pairsEq(got, want) {
					d := "iter"
					if !asc {
						d = "reviter"
					}
					return d, fmt.Sprintf("%s: %s(%s,%s)=%s %s, committed state gives %s", label, d, hx(st), hx(en), fmtPairs(got), e, fmtPairs(want))
				}
			}
		}
	}
	return "", ""
}

// msObserveMulti observes every persistent substore of a multistore, directly and through a cache wrap.
func msObserveMulti(label string, ms storetypes.MultiStore, skeys []*storetypes.KVStoreKey, model []map[string][]byte, keys, bounds [][]byte, wrap bool) (string, string) {
	for i, k := range skeys {
		if sig, what := msObserveStore(fmt.Sprintf("%s store%d", label, i), ms.GetKVStore(k), model[i], keys, bounds); sig != "" {
			return sig, what
		}
	}
	if wrap {
		c := ms.CacheMultiStore()
		for i, k := range skeys {
			if sig, what := msObserveStore(fmt.Sprintf("%s store%d (cache-wrapped)", label, i), c.GetKVStore(k), model[i], keys, bounds); sig != "" {
				return "wrapped/" + sig, what
			}
		}
	}
	return "", ""
}

func copyMemDB(db *dbm.MemDB) *dbm.MemDB {
	n := dbm.NewMemDB()
	it, _ := db.Iterator(nil, nil)
	for ; it.Valid(); it.Next() {
		_ = n.Set(append([]byte{}, it.Key()...), append([]byte{}, it.Value()...))
	}
	it.Close()
	return n
}

func dumpDB(db dbm.DB) map[string]string {
	out := map[string]string{}
	it, _ := db.Iterator(nil, nil)
	for ; it.Valid(); it.Next() {
		out[string(it.Key())] = string(it.Value())
	}
	it.Close()
	return out
}

func sortStrings(s []string) {
	for i := 1; i < len(s); i++ {
		for j := i; j > 0 && s[j] < s[j-1]; j-- {
			s[j], s[j-1] = s[j-1], s[j]
		}
	}
}

// msApplyBlock re-applies a recorded block on a multistore and commits.
func msApplyBlock(rs *rootmulti.Store, skeys []*storetypes.KVStoreKey, tkeys []*storetypes.TransientStoreKey, block []msWrite) storetypes.CommitID {
	c := rs.CacheMultiStore()
	for _, w := range block {
		switch {
		case w.trans:
			_ = c.GetKVStore(tkeys[w.store]).Set(w.key, w.val)
		case w.del:
			_ = c.GetKVStore(skeys[w.store]).Delete(w.key)
		default:
			_ = c.GetKVStore(skeys[w.store]).Set(w.key, w.val)
		}
	}
	c.Write()
	return rs.Commit()
}

type dbmMemDB = dbm.MemDB

func newEmptyMemDB() *dbm.MemDB { return dbm.NewMemDB() }

// dumpCache renders the private state of the multistore height cache (reflection, read-only).
func dumpCache(rs *rootmulti.Store) string {
	return dump.Dump(rs.Cache, dump.Opts{})
}
