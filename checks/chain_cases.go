package checks

import (
	"encoding/json"
	"fmt"
	"math/big"
	"strings"
	"sync"

	"verif/internal/ev"
)

// chainCase: a differential case - the subject history against a reference history.
type chainCase struct {
	Name    string
	Class   string // coarse class for signatures
	Env     EnvCfg
	Ref     []BlockSpec
	Subject []BlockSpec
	Want    []string
	// Oracle returns a signature suffix and explanation when the property is violated
	Oracle func(ref, sub JobResult) (string, string)
	// Pre / PreCheck: optional history whose final state must satisfy the case's precondition; a failed
	// precondition is an error of the harness (the case would be vacuous), never a violation
	Pre      []BlockSpec
	PreCheck func(pre JobResult) string
}

type caseReplay struct {
	Spec    string      `json:"spec"`
	Case    string      `json:"case"`
	Env     EnvCfg      `json:"env"`
	Ref     []BlockSpec `json:"reference_blocks"`
	Subject []BlockSpec `json:"subject_blocks"`
	Text    []string    `json:"subject_history"`
}

func obsBalances(r JobResult) map[string]*big.Int {
	out := map[string]*big.Int{}
	m, _ := r.Obs["balances"].(map[string]interface{})
	for k, v := range m {
		b, ok := new(big.Int).SetString(fmt.Sprint(v), 10)
		if !ok {
			b = big.NewInt(-1)
		}
		out[k] = b
	}
	return out
}

// obsRecords: node / application records by role -> field -> value.
func obsRecords(r JobResult, key string) map[string]map[string]string {
	out := map[string]map[string]string{}
	m, _ := r.Obs[key].(map[string]interface{})
	for k, v := range m {
		rec := map[string]string{}
		if mm, ok := v.(map[string]interface{}); ok {
			for f, x := range mm {
				rec[f] = fmt.Sprint(x)
			}
		}
		out[k] = rec
	}
	return out
}

// balanceDelta: subject minus reference, only non-zero entries.
func balanceDelta(ref, sub JobResult) map[string]int64 {
	a, b := obsBalances(ref), obsBalances(sub)
	d := map[string]int64{}
	for k, v := range b {
		x := new(big.Int).Set(v)
		if y, ok := a[k]; ok {
			x.Sub(x, y)
		}
		if x.Sign() != 0 {
			d[k] = x.Int64()
		}
	}
	for k, v := range a {
		if _, ok := b[k]; !ok && v.Sign() != 0 {
			d[k] = -v.Int64()
		}
	}
	return d
}

func lastTx(r JobResult) TxRes {
	for i := len(r.Blocks) - 1; i >= 0; i-- {
		if n := len(r.Blocks[i].Txs); n > 0 {
			return r.Blocks[i].Txs[n-1]
		}
	}
	return TxRes{Code: 999999}
}

func lastHash(r JobResult) string {
	if len(r.Blocks) == 0 {
		return ""
	}
	return r.Blocks[len(r.Blocks)-1].AppHash
}

// runChainCases executes all cases on the pool (reference results are shared between cases with equal reference).
func runChainCases(c *ev.Ctx, spec string, cases []chainCase) {
	p := getPool()
	if len(cases) == 0 {
		return
	}
	if !chainSelfCheck(c, Job{Env: cases[0].Env, Blocks: cases[0].Subject, Want: cases[0].Want}) {
		return
	}
	refCache := map[string]JobResult{}
	var rmu sync.Mutex
	getRef := func(cs chainCase) JobResult {
		k := jobJSON(Job{Env: cs.Env, Blocks: cs.Ref, Want: cs.Want})
		rmu.Lock()
		r, ok := refCache[k]
		rmu.Unlock()
		if ok {
			return r
		}
		r = p.Exec(Job{Env: cs.Env, Blocks: cs.Ref, Want: cs.Want})
		rmu.Lock()
		refCache[k] = r
		rmu.Unlock()
		return r
	}
	work := make(chan chainCase, 64)
	var wg sync.WaitGroup
	var n int64
	var mu sync.Mutex
	complete := true
	for w := 0; w < p.n; w++ {
		wg.Add(1)
		go func() {
			defer wg.Done()
			for cs := range work {
				if c.Expired() {
					mu.Lock()
					complete = false
					mu.Unlock()
					continue
				}
				if cs.PreCheck != nil {
					pc := cs
					pc.Ref = cs.Pre
					pre := getRef(pc)
					if pre.Err != "" {
						c.HarnessError(fmt.Sprintf("%s case %s: precondition job failed: %s", spec, cs.Name, pre.Err))
						continue
					}
					if msg := cs.PreCheck(pre); msg != "" {
						c.HarnessError(fmt.Sprintf("%s case %s: precondition not met: %s", spec, cs.Name, msg))
						continue
					}
				}
				ref := getRef(cs)
				sub := p.Exec(Job{Env: cs.Env, Blocks: cs.Subject, Want: cs.Want})
				mu.Lock()
				n++
				mu.Unlock()
				if ref.Err == "" && sub.AppPanic != "" {
					// the real application panicked while executing a block of the subject history (a node would halt or,
					// where the panic is recovered per transaction, diverge): a verdict about the code, not about the harness
					c.Report(spec+"/block-execution-panics", "block execution panics: "+sub.AppPanic+"  [case "+cs.Name+": "+fmt.Sprint(blocksText(cs.Subject))+"]", caseReplay{spec, cs.Name, cs.Env, cs.Ref, cs.Subject, blocksText(cs.Subject)})
					continue
				}
				if ref.Err != "" || sub.Err != "" {
					c.HarnessError(fmt.Sprintf("%s case %s: %s %s", spec, cs.Name, ref.Err, sub.Err))
					continue
				}
				for _, v := range sub.Viols {
					c.Report(spec+"/"+v.Sig, v.What+" [case "+cs.Name+"]", caseReplay{spec, cs.Name, cs.Env, cs.Ref, cs.Subject, blocksText(cs.Subject)})
				}
				tr := lastTx(sub)
				c.Outcome(fmt.Sprintf("%s:%s:code%d", spec, cs.Class, tr.Code))
				if sig, what := cs.Oracle(ref, sub); strings.HasPrefix(sig, "harness:") {
					c.HarnessError(fmt.Sprintf("%s case %s: %s", spec, cs.Name, what))
				} else if sig != "" {
					c.Report(spec+"/"+sig, what+"  [case "+cs.Name+": "+fmt.Sprint(blocksText(cs.Subject))+"]", caseReplay{spec, cs.Name, cs.Env, cs.Ref, cs.Subject, blocksText(cs.Subject)})
				}
				c.Distinct(spec + "|" + cs.Name)
			}
		}()
	}
	for _, cs := range cases {
		work <- cs
	}
	close(work)
	wg.Wait()
	c.AddStates(n)
	c.AddTransitions(n)
	c.AddTraces(n + int64(len(refCache)))
	c.Extra["blocks_executed_on_real_app"] = p.Blocks
	if !complete {
		c.Cap(spec + " stopped by the time budget")
	}
	c.Sample(map[string]interface{}{"spec": spec, "case": cases[len(cases)/2].Name, "subject": blocksText(cases[len(cases)/2].Subject), "reference": blocksText(cases[len(cases)/2].Ref)})
	c.BoundDone += fmt.Sprintf("%s: %d cases (each: subject replica vs reference replica on the real app), complete=%v; ", spec, len(cases), complete)
}

func caseReplayFn(oracles func(spec, name string) *chainCase) func(raw json.RawMessage) (string, error) {
	return func(raw json.RawMessage) (string, error) {
		var r caseReplay
		if err := json.Unmarshal(raw, &r); err != nil {
			return "", err
		}
		cs := oracles(r.Spec, r.Case)
		if cs == nil {
			return r.Case, fmt.Errorf("case %q is no longer generated", r.Case)
		}
		ref := runJob(Job{Env: cs.Env, Blocks: cs.Ref, Want: cs.Want})
		sub := runJob(Job{Env: cs.Env, Blocks: cs.Subject, Want: cs.Want})
		// results go through JSON in the pool; normalise the same way
		var ref2, sub2 JobResult
		b1, _ := json.Marshal(ref)
		b2, _ := json.Marshal(sub)
		_ = json.Unmarshal(b1, &ref2)
		_ = json.Unmarshal(b2, &sub2)
		if sig, what := cs.Oracle(ref2, sub2); sig != "" {
			return fmt.Sprint(blocksText(cs.Subject)), fmt.Errorf("%s: %s", sig, what)
		}
		return fmt.Sprint(blocksText(cs.Subject)), nil
	}
}
