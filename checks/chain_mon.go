package checks

import (
	"fmt"
	"strconv"
	"strings"

	sdk "github.com/pokt-network/pocket-core/types"
)

func (r *replica) snap() *chainSnap {
	var res JobResult
	res.Obs = map[string]interface{}{}
	chainInvariants["balances"](r, &res)
	s := &chainSnap{Height: r.height, Time: r.time.Unix(), Bal: map[string]int64{}}
	for k, v := range res.Obs["balances"].(map[string]string) { // typed maps in-process (JSON only between processes)
		n, _ := strconv.ParseInt(v, 10, 64)
		s.Bal[k] = n
	}
	s.Nodes = res.Obs["nodes"].(map[string]map[string]string)
	s.Apps = res.Obs["apps"].(map[string]map[string]string)
	ak, _, _, _, _ := r.app.VerifKeepers()
	if sup := ak.GetSupply(r.ctxNow()); sup != nil {
		s.Supply = upokt(sup.GetTotal()).Int64()
	}
	return s
}

func atoi(s string) int64 { n, _ := strconv.ParseInt(s, 10, 64); return n }

// monState: per-replica memory of a monitor.
func (r *replica) monState(name string) map[string]interface{} {
	if r.mon == nil {
		r.mon = map[string]map[string]interface{}{}
	}
	if r.mon[name] == nil {
		r.mon[name] = map[string]interface{}{}
	}
	return r.mon[name]
}

func init() {
	// C24: unstaking lifecycle
	chainMonitors["mon:lifecycle"] = func(r *replica, res *JobResult, bi int, b BlockSpec, br BlockRes, prev, cur *chainSnap) {
		st := r.monState("lifecycle")
		bps := r.env.BlocksPerSession
		signed := map[string]bool{}
		for i, t := range b.Txs {
			signed[t.Signer] = true
			if i < len(br.Txs) && br.Txs[i].Code == 0 {
				switch t.Kind {
				case "node_unstake":
					n := t.Args["node"]
					if n == "" {
						n = t.Signer
					}
					st["requested:"+n] = true
				case "app_unstake":
					st["apprequested:"+t.Signer] = true
				case "send":
					signed[t.Args["to"]] = true // balance of the recipient moves for another reason
				}
			}
		}
		for name, p := range prev.Nodes {
			c, exists := cur.Nodes[name]
			desc := fmt.Sprintf("node %s at height %d (block time %d): before %v, after %v", name, cur.Height, cur.Time, p, c)
			switch p["status"] {
			case "2": // staked
				if !exists {
					res.viol("lifecycle/staked-node-vanished", desc+": a staked node disappeared without passing through unstaking")
					continue
				}
				if c["status"] == "1" {
					if cur.Height%bps != 0 {
						res.viol("lifecycle/left-staked-state-off-session-boundary", desc+fmt.Sprintf(": began unstaking at height %d, which is not the last block of a session (%d blocks per session)", cur.Height, bps))
					}
					if st["requested:"+name] != true && p["jailed"] != "true" && p["waiting"] != "true" {
						res.viol("lifecycle/unstaking-without-request", desc+": began unstaking without a begin-unstake request or a forced unstake")
					}
				}
				if c["status"] == "0" {
					res.viol("lifecycle/staked-to-unstaked-directly", desc)
				}
			case "1": // unstaking
				due := atoi(p["unstaking"]) <= cur.Time
				if due {
					if exists && c["status"] == "1" {
						res.viol("lifecycle/not-paid-when-due", desc+": completion time reached but the node is still unstaking")
						continue
					}
					if exists {
						// due in this block: the record no longer exists afterwards (a stake request of an unstaking node
						// is refused, and a new stake of the same key can only come in a later block)
						res.viol("lifecycle/record-survives-completion", desc+": completion time reached, but a record of the node still exists after the block")
					}
					out := p["output"]
					if out == "" {
						out = name
					}
					if !signed[out] {
						d := cur.Bal[out] - prev.Bal[out]
						// a node that is still in the set that signs (two-block update delay) can be slashed in the
						// BeginBlock of its payout block: it is then paid what is left. Burns are the only way supply
						// falls in these histories, so the supply decrease bounds what the slash took.
						punishable := false
						for _, a := range b.Absent {
							punishable = punishable || a == name
						}
						for _, e := range b.Evidence {
							punishable = punishable || strings.HasPrefix(e, name)
						}
						burned := prev.Supply - cur.Supply
						if !(d == atoi(p["tokens"]) || (punishable && burned > 0 && d >= atoi(p["tokens"])-burned && d < atoi(p["tokens"]))) {
							res.viol("lifecycle/payout-amount-or-recipient", desc+fmt.Sprintf(": output address %s changed by %d, stake was %s (supply fell by %d in this block)", out, d, p["tokens"], burned))
						}
					}
					if st["paid:"+name] == true {
						res.viol("lifecycle/paid-twice", desc)
					}
					st["paid:"+name] = true
					delete(st, "requested:"+name)
				} else {
					if !exists {
						res.viol("lifecycle/left-before-completion-time", desc+fmt.Sprintf(": completion time %s not reached", p["unstaking"]))
					} else if c["status"] != "1" {
						res.viol("lifecycle/unstaking-state-left-early", desc)
					}
				}
			}
		}
		for name, c := range cur.Nodes {
			if _, ok := prev.Nodes[name]; !ok && c["status"] == "2" {
				delete(st, "paid:"+name) // staked again: a new life
			}
		}
		for name, p := range prev.Apps {
			c, exists := cur.Apps[name]
			desc := fmt.Sprintf("application %s at height %d (block time %d): before %v, after %v", name, cur.Height, cur.Time, p, c)
			switch p["status"] {
			case "2":
				if !exists {
					// transferred to another key: same stake under a new address, old record gone
					moved := false
					for n2, c2 := range cur.Apps {
						if _, was := prev.Apps[n2]; !was && c2["tokens"] == p["tokens"] {
							moved = true
						}
					}
					if !moved {
						res.viol("lifecycle/staked-app-vanished", desc)
					}
					continue
				}
				if c["status"] == "1" && st["apprequested:"+name] != true {
					res.viol("lifecycle/app-unstaking-without-own-request", desc)
				}
			case "1":
				due := atoi(p["unstaking"]) <= cur.Time
				if due {
					if exists && c["status"] == "1" {
						res.viol("lifecycle/app-not-paid-when-due", desc)
						continue
					}
					if exists {
						res.viol("lifecycle/app-record-survives-completion", desc+": completion time reached, but a record of the application still exists after the block")
					}
					if !signed[name] {
						if d := cur.Bal[name] - prev.Bal[name]; d != atoi(p["tokens"]) {
							res.viol("lifecycle/app-payout-amount-or-recipient", desc+fmt.Sprintf(": the application's account changed by %d, stake was %s", d, p["tokens"]))
						}
					}
					delete(st, "apprequested:"+name)
				} else if !exists || c["status"] != "1" {
					res.viol("lifecycle/app-left-before-completion-time", desc)
				}
			}
		}
	}

	// C25: slashing and jailing
	chainMonitors["mon:slashing"] = func(r *replica, res *JobResult, bi int, b BlockSpec, br BlockRes, prev, cur *chainSnap) {
		_, nk, _, _, _ := r.app.VerifKeepers()
		minStake := nk.MinimumStake(r.ctxNow())
		edited := map[string]bool{}
		for i, t := range b.Txs {
			if t.Kind == "node_stake" && i < len(br.Txs) && br.Txs[i].Code == 0 {
				n := t.Args["node"]
				if n == "" {
					n = t.Signer
				}
				edited[n] = true
			}
		}
		var burned int64
		for name, p := range prev.Nodes {
			c, exists := cur.Nodes[name]
			if !exists || edited[name] {
				continue
			}
			d := atoi(p["tokens"]) - atoi(c["tokens"])
			desc := fmt.Sprintf("node %s at height %d: before %v, after %v", name, cur.Height, p, c)
			if d < 0 {
				res.viol("slashing/stake-grew-without-edit", desc)
			}
			if d > 0 {
				burned += d
				if atoi(c["tokens"]) < 0 {
					res.viol("slashing/burned-more-than-stake", desc)
				}
				if atoi(c["tokens"]) < minStake {
					if c["jailed"] != "true" {
						res.viol("slashing/below-minimum-not-jailed", desc+fmt.Sprintf(": stake fell below the minimum %d but the node is not jailed", minStake))
					}
					if c["waiting"] != "true" && c["status"] == "2" {
						res.viol("slashing/below-minimum-not-queued-to-unstake", desc+fmt.Sprintf(": stake fell below the minimum %d but the node is not queued to unstake", minStake))
					}
				}
			}
		}
		// a jail period, once set, is not shortened while the node stays jailed (it may be extended by a further offence)
		jst := r.monState("slashing")
		for name, c := range cur.Nodes {
			if c["jailed"] != "true" {
				delete(jst, "until:"+name)
				continue
			}
			u := atoi(c["jailed_until"])
			if old, ok := jst["until:"+name].(int64); ok && u < old {
				res.viol("slashing/jail-period-shortened", fmt.Sprintf("height %d (block time %d): node %s is jailed; its jailed-until time was %d and is now %d although it was never unjailed: %v", cur.Height, cur.Time, name, old, u, c))
			} else {
				jst["until:"+name] = u
			}
		}
		for name := range prev.Nodes {
			if _, ok := cur.Nodes[name]; !ok {
				delete(jst, "until:"+name)
			}
		}
		// coins burned == stake removed == supply decrease (the menu has no other burns or mints)
		paidOut := int64(0) // unstaking payouts do not touch supply
		_ = paidOut
		// (a node that completed unstaking in this block is gone from the record set: a slash it received in the
		// same block cannot be read off its record any more, so the equality is only evaluated when nobody left)
		vanished := false
		for name := range prev.Nodes {
			if _, ok := cur.Nodes[name]; !ok {
				vanished = true
			}
		}
		if ds := prev.Supply - cur.Supply; ds != burned && !(vanished && ds > burned) {
			res.viol("slashing/supply-change-differs-from-stake-removed", fmt.Sprintf("height %d: stake removed from nodes by slashing %d, total supply decreased by %d", cur.Height, burned, ds))
		}
		// unjail requests: accepted iff authorized signer, jailed, stake >= minimum, block time >= JailedUntil
		for i, t := range b.Txs {
			if t.Kind != "node_unjail" || i >= len(br.Txs) {
				continue
			}
			n := t.Args["node"]
			if n == "" {
				n = t.Signer
			}
			as := t.Args["as"]
			if as == "" {
				as = t.Signer
			}
			p, ok := prev.Nodes[n]
			if !ok {
				continue
			}
			// the snapshot before the block does not include slashing/jailing done in this block's BeginBlock; use the
			// record as of after BeginBlock when the node got jailed in this very block: skip such ambiguous cases
			if c, ok2 := cur.Nodes[n]; ok2 && p["jailed"] != "true" && c["jailed"] == "true" {
				continue
			}
			authorized := as == t.Signer && (as == n || as == p["output"])
			want := authorized && p["jailed"] == "true" && atoi(p["tokens"]) >= minStake && p["jailed_until"] != "" && cur.Time >= atoi(p["jailed_until"])
			got := br.Txs[i].Code == 0
			if want != got {
				res.viol("slashing/unjail-acceptance", fmt.Sprintf("height %d block time %d: unjail of %s requested by %s (signed by %s) returned code %d; node before the block %v; reference predicate (authorized signer, jailed, stake >= %d, block time >= jailed-until) = %v", cur.Height, cur.Time, n, as, t.Signer, br.Txs[i].Code, p, minStake, want))
			}
		}
	}
}

var _ = sdk.ZeroInt
