package checks

import (
	"bufio"
	"bytes"
	"encoding/json"
	"fmt"
	"os"
	"os/exec"
	"runtime"
	"sync"
	"time"
)

// ---- worker side ----

func init() {
	workerEntry = func(args []string) {
		in := bufio.NewReaderSize(os.NewFile(3, "jobs"), 1<<20)
		out := os.NewFile(4, "results")
		for {
			line, err := in.ReadBytes('\n')
			if err != nil {
				return
			}
			var job Job
			var res JobResult
			if err := json.Unmarshal(line, &job); err != nil {
				res.Err = "bad job: " + err.Error()
			} else {
				res = runJob(job)
			}
			bz, _ := json.Marshal(res)
			bz = append(bz, '\n')
			if _, err := out.Write(bz); err != nil {
				return
			}
		}
	}
}

// ---- master side ----

type chainWorker struct {
	cmd    *exec.Cmd
	in     *os.File
	out    *bufio.Reader
	stderr *bytes.Buffer
	jobs   int
}

type chainPool struct {
	mu      sync.Mutex
	free    chan *chainWorker
	n       int
	Jobs    int64
	Blocks  int64
	recycle int
	bin     string
	env     []string
}

func startWorker() (*chainWorker, error) { return startWorkerWith("", nil) }

// startWorkerWith: another worker binary (built with a seam: fake clock, controlled map order) and extra environment.
func startWorkerWith(bin string, env []string) (*chainWorker, error) {
	exe, err := os.Executable()
	if err != nil {
		return nil, err
	}
	if bin != "" {
		exe = bin
	}
	jr, jw, _ := os.Pipe()
	rr, rw, _ := os.Pipe()
	cmd := exec.Command(exe, "worker")
	cmd.ExtraFiles = []*os.File{jr, rw}
	cmd.Env = append(append(os.Environ(), "GOMAXPROCS=2"), env...)
	var eb bytes.Buffer
	cmd.Stderr = &limitedWriter{buf: &eb, max: 16000}
	cmd.Stdout = &limitedWriter{buf: &eb, max: 16000}
	if err := cmd.Start(); err != nil {
		return nil, err
	}
	jr.Close()
	rw.Close()
	return &chainWorker{cmd: cmd, in: jw, out: bufio.NewReaderSize(rr, 1<<20), stderr: &eb}, nil
}

type limitedWriter struct {
	mu  sync.Mutex
	buf *bytes.Buffer
	max int
}

func (l *limitedWriter) String() string {
	l.mu.Lock()
	defer l.mu.Unlock()
	return l.buf.String()
}

func (l *limitedWriter) Write(p []byte) (int, error) {
	l.mu.Lock()
	defer l.mu.Unlock()
	// keep the most recent output (what a dying worker printed last is what matters)
	l.buf.Write(p)
	if l.buf.Len() > 2*l.max {
		b := append([]byte{}, l.buf.Bytes()[l.buf.Len()-l.max:]...)
		l.buf.Reset()
		l.buf.Write(b)
	}
	return len(p), nil
}

func (w *chainWorker) kill() {
	w.in.Close()
	_ = w.cmd.Process.Kill()
	_ = w.cmd.Wait() // also waits until the output pipes have been drained
}

func newChainPool(n int) *chainPool { return newChainPoolWith(n, "", nil) }

func newChainPoolWith(n int, bin string, env []string) *chainPool {
	if n <= 0 {
		n = runtime.GOMAXPROCS(0)
	}
	p := &chainPool{free: make(chan *chainWorker, n), n: n, recycle: 400, bin: bin, env: env}
	for i := 0; i < n; i++ {
		w, err := startWorkerWith(bin, env)
		if err != nil {
			panic(err)
		}
		p.free <- w
	}
	return p
}

func (p *chainPool) Close() {
	for i := 0; i < p.n; i++ {
		select {
		case w := <-p.free:
			w.kill()
		case <-time.After(5 * time.Second):
			return
		}
	}
}

// Exec runs one job on a free worker. A worker that dies or exceeds the deadline is replaced and the job
// reports a harness error (never a property violation).
func (p *chainPool) Exec(job Job) JobResult {
	w := <-p.free
	bz, _ := json.Marshal(job)
	bz = append(bz, '\n')
	type rd struct {
		line []byte
		err  error
	}
	ch := make(chan rd, 1)
	go func() {
		if _, err := w.in.Write(bz); err != nil {
			ch <- rd{nil, err}
			return
		}
		line, err := w.out.ReadBytes('\n')
		ch <- rd{line, err}
	}()
	var res JobResult
	select {
	case r := <-ch:
		if r.err != nil {
			w.kill() // reaps the process: its last stderr output is complete only after that
			res.Err = fmt.Sprintf("worker died (%v); output tail: %s", r.err, tail(w.stderr.String(), 1500))
			w = nil
		} else if err := json.Unmarshal(r.line, &res); err != nil {
			res.Err = "bad result: " + err.Error()
		}
	case <-time.After(jobDeadline(job)):
		res.Err = fmt.Sprintf("worker deadline (%v) exceeded; output tail: ", jobDeadline(job)) + tail(w.stderr.String(), 1500)
		w.kill()
		w = nil
	}
	p.mu.Lock()
	p.Jobs++
	p.Blocks += int64(len(job.Blocks) + job.Env.Warmup)
	p.mu.Unlock()
	if w != nil {
		w.jobs++
		if w.jobs >= p.recycle {
			w.kill()
			w = nil
		}
	}
	if w == nil {
		nw, err := startWorkerWith(p.bin, p.env)
		if err != nil {
			panic(err)
		}
		w = nw
	}
	p.free <- w
	return res
}

func tail(s string, n int) string {
	if len(s) > n {
		return s[len(s)-n:]
	}
	return s
}

// RunJobJSON: debugging aid (verifbin job <file>).
func RunJobJSON(bz []byte) string {
	var job Job
	if err := json.Unmarshal(bz, &job); err != nil {
		return err.Error()
	}
	if job.Env.BlocksPerSession == 0 {
		job.Env = defaultEnv()
	}
	res := runJob(job)
	out, _ := json.MarshalIndent(res, "", " ")
	return string(out)
}

func jobDeadline(j Job) time.Duration {
	if j.DeadlineSec > 0 {
		return time.Duration(j.DeadlineSec) * time.Second
	}
	return 120 * time.Second
}
