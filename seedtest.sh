#!/bin/bash
# usage: seedtest.sh <seed dir name under /verif/seeded> <tier> <check id>...
# Applies a seeded property-breaking change to /repo, runs the given checks, records the verdicts, undoes the change.
set -u
name=$1; tier=$2; shift 2
dir=/verif/seeded/$name
if ! git -C /repo diff --quiet; then echo "/repo has uncommitted changes"; exit 2; fi
if ! git -C /repo apply --check "$dir/patch.diff" 2>/dev/null; then echo "$name: patch does not apply"; exit 2; fi
git -C /repo apply "$dir/patch.diff"
: > "$dir/result.txt"
for id in "$@"; do
  out=$(/verif/check.sh "$id" "$tier" 2>&1 | grep -v '^APP-ERROR')
  rc=$?
  nv=$(echo "$out" | grep -c '^VIOLATION')
  he=$(echo "$out" | grep -c 'HARNESS-ERROR')
  echo "$id $tier: violations=$nv harness_errors=$he" | tee -a "$dir/result.txt"
  echo "$out" | grep -A2 '^VIOLATION' | head -12 | cut -c1-400 >> "$dir/result.txt"
  echo "$out" | grep 'HARNESS-ERROR' | head -3 | cut -c1-400 >> "$dir/result.txt"
done
git -C /repo checkout -- .
git -C /repo status --short | head -3
