#!/bin/bash
# usage: seedtest.sh <seed dir name under /verif/seeded> <tier> <check id>...
# Applies a seeded property-breaking change to a SCRATCH COPY of /repo's working tree, runs the given checks against
# that copy (check.sh with VERIF_REPO), records the verdicts and removes the copy. /repo itself and /verif/evidence
# are not touched, so this can run next to other checks.
set -u
name=$1; tier=$2; shift 2
dir=/verif/seeded/$name
copy=/var/tmp/seedrepo.$$; out=/var/tmp/seedout.$$
rm -rf "$copy" "$out"; mkdir -p "$copy" "$out"
rsync -a --exclude .git /repo/ "$copy/"
if ! (cd "$copy" && git apply "$dir/patch.diff" 2>/dev/null); then echo "$name: patch does not apply"; rm -rf "$copy" "$out"; exit 2; fi
: > "$dir/result.txt"
for id in "$@"; do
  out_txt=$(VERIF_REPO="$copy" VERIF_OUT="$out" /verif/check.sh "$id" "$tier" 2>&1 | grep -v '^APP-ERROR')
  nv=$(echo "$out_txt" | grep -c '^VIOLATION')
  he=$(echo "$out_txt" | grep -c 'HARNESS-ERROR')
  echo "$id $tier: violations=$nv harness_errors=$he" | tee -a "$dir/result.txt"
  echo "$out_txt" | grep -A2 '^VIOLATION' | head -12 | cut -c1-400 | sed "s#$out#/verif#" >> "$dir/result.txt"
  echo "$out_txt" | grep 'HARNESS-ERROR' | head -3 | cut -c1-400 >> "$dir/result.txt"
done
rm -rf "$copy" "$out"
