#!/bin/bash
# runs every claimed check of a tier and prints one line per check (development aid)
tier=${1:-quick}
cd /verif
for id in $(python3 -c "import json;print(' '.join(p['property_id'] for p in json.load(open('MANIFEST.json'))['checks']))"); do
  s=$(date +%s)
  ./check.sh $id $tier > /var/tmp/verif-work/run.$id.$tier.log 2>&1
  rc=$?
  e=$(date +%s)
  echo "$id rc=$rc $((e-s))s $(grep -c '^VIOLATION' /var/tmp/verif-work/run.$id.$tier.log) violations $(grep -c '^KNOWN-FINDING' /var/tmp/verif-work/run.$id.$tier.log) known $(grep -o 'exhaustive=[a-z]*' /var/tmp/verif-work/run.$id.$tier.log | head -1)"
done
