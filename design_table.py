#!/usr/bin/env python3
# rewrites the per-property table of DESIGN.md section 4 from manifest_table.py (single source for MANIFEST and DESIGN)
import re
rows=[]
def add(pid,cat,tech,text,limits,*a,**k):
    rows.append((pid,tech,text,limits))
NA={}
src=open('/verif/manifest_table.py').read()
exec(src)
rows.sort()
d=open('/verif/DESIGN.md').read()
i=d.index('| id | deciding technique |')
j=d.index('\n## 5.',i)
hdr='| id | deciding technique | rule checked on everything explored | limits |\n|---|---|---|---|\n'
body=''.join('| %s | %s | %s | %s |\n'%(a,b.replace('|','/'),c.replace('|','/'),e.replace('|','/')) for a,b,c,e in rows)
tail=d[i:j]
# keep whatever prose followed the table
m=re.search(r'\n\n(?!\|)',tail)
rest=tail[m.start():] if m else '\n'
open('/verif/DESIGN.md','w').write(d[:i]+hdr+body+rest+d[j:])
print(len(rows),'rows')
