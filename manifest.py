#!/usr/bin/env python3
# Generates MANIFEST.json from the table below (keeps it schema-valid at all times).
import json, os
props=[json.loads(l) for l in open('/verif/properties.jsonl')]
ids=[p['id'] for p in props]
# id -> (category, technique, level text, level note, design_ref)
C={}
def add(i,cat,tech,text,note,ref='4'):
    C[i]=dict(cat=cat,tech=tech,text=text,note=note,ref=ref)
exec(open('/verif/manifest_table.py').read())
checks=[]
for i in ids:
    if i in C:
        c=C[i]
        checks.append({"property_id":i,"quick_cmd":f"./check.sh {i} quick","thorough_cmd":f"./check.sh {i} thorough",
          "evidence_file":f"/verif/evidence/{i}.json","replay_cmd_template":"./replay.sh {path}","engine":c.get('engine','verifbin'),
          "level_claimed":{"category":c['cat'],"text":c['text'],"design_ref":"DESIGN.md §"+c['ref']},
          "level_note":c['note'],"technique":c['tech']})
na=[{"property_id":i,"reason":NA.get(i,"check not built yet in this round; no claim made")} for i in ids if i not in C]
hooks=[l.strip() for l in open('/verif/hook_commits.txt')] if os.path.exists('/verif/hook_commits.txt') else []
m={"version":1,"setup_cmd":"./setup.sh",
 "hooks":{"guard":"verif","enable":"go build -tags verif (check.sh); sync/runtime seams are go build -overlay files generated at check time",
   "baseline_off_cmd":json.load(open('/root/.vp/BASELINE.json'))['cmd'],"source_commits":hooks,"add_only":True},
 "engines":[{"name":"verifbin","path":"/verif/cmd/verifbin","serves_properties":sorted(C.keys()),
   "kind_free_text":"hand-written explicit-state / sequence / schedule / crash-point explorers in Go driving the real pocket-core code against reference models"}],
 "checks":checks,"not_applicable":na,
 "notes":"All checks decide by exhaustive enumeration within stated bounds (see DESIGN.md); VERIF_SEED only permutes order."}
json.dump(m,open('/verif/MANIFEST.json','w'),indent=1)
print(len(checks),"checks,",len(na),"not claimed")
