#!/bin/bash
# regression sweep: every seeded change against the checks recorded as catching it (development aid; modifies /repo temporarily)
# usage: seedall.sh [tier]   -> prints one line per seed, MISSED if no recorded check reports a violation
tier=${1:-quick}
cd /verif
python3 - <<'PY' > /var/tmp/seedall.list
import json,re
n=json.load(open('/verif/seeded/notes.json'))
for k,v in sorted(n.items()):
    ids=sorted(set(re.findall(r'C\d\d',v.get('caught_by',''))))
    if ids: print(k,' '.join(ids))
PY
while read name ids; do
  [ -f seeded/$name/patch.diff ] || { echo "$name NO-PATCH"; continue; }
  out=$(./seedtest.sh $name $tier $ids 2>&1)
  if echo "$out" | grep -q "violations=[1-9]"; then echo "$name caught: $(echo "$out" | grep -o 'C[0-9][0-9] [a-z]*: violations=[1-9][0-9]*' | tr '\n' ' ')"; else echo "$name MISSED: $(echo "$out" | tail -2 | tr '\n' ' ')"; fi
done < /var/tmp/seedall.list
