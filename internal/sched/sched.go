// Package sched: a cooperative scheduler and a preemption-bounded depth-first explorer for a handful of
// goroutines whose synchronization operations are hooked (stateless model checking in the style of CHESS).
// Exactly one controlled goroutine runs at any time; it hands control back at every hooked Lock.
package sched

import (
	"fmt"
	"sync/atomic"
	"time"
)

type event struct {
	thread int
	kind   int // 0 = at lock, 1 = done, 2 = panicked
	mutex  interface{}
	info   string
}

type Point struct {
	Enabled             int  // number of enabled threads at this point
	RunningStillEnabled bool // the thread that ran last could continue
	Chosen              int
	Thread              int // id of the chosen thread
}

type Exec struct {
	Points    []Point
	Choices   []int
	Deadlock  bool
	Panics    []string
	TimedOut  bool
	Preempted int
}

type thread struct {
	id      int
	resume  chan struct{}
	waiting interface{} // mutex it wants, nil when at start
	done    bool
}

type Sched struct {
	active  int32
	cur     int
	threads []*thread
	events  chan event
	held    map[interface{}]int // mutex -> owner thread
}

var S = &Sched{}

func (s *Sched) Active() bool { return atomic.LoadInt32(&s.active) == 1 }

// OnLock is called by the running controlled goroutine.
func (s *Sched) OnLock(m interface{}) {
	t := s.threads[s.cur]
	s.events <- event{thread: t.id, kind: 0, mutex: m}
	<-t.resume
}

// Yield is a scheduling point without a resource: the running controlled goroutine may be preempted here and stays
// enabled (used for operations on shared storage inside a critical section, so that code which skips the lock can be
// interleaved with the section).
func (s *Sched) Yield() {
	t := s.threads[s.cur]
	s.events <- event{thread: t.id, kind: 0, mutex: nil}
	<-t.resume
}

func (s *Sched) OnUnlock(m interface{}) {
	delete(s.held, m)
}

// Run executes fns under the schedule given by prefix (then always choice 0).
func (s *Sched) Run(prefix []int, fns []func(), watchdog time.Duration) (x Exec, err error) {
	s.threads = nil
	s.events = make(chan event)
	s.held = map[interface{}]int{}
	for i := range fns {
		t := &thread{id: i, resume: make(chan struct{})}
		s.threads = append(s.threads, t)
		fn := fns[i]
		go func() {
			<-t.resume
			defer func() {
				if p := recover(); p != nil {
					s.events <- event{thread: t.id, kind: 2, info: fmt.Sprint(p)}
					return
				}
				s.events <- event{thread: t.id, kind: 1}
			}()
			fn()
		}()
	}
	atomic.StoreInt32(&s.active, 1)
	defer atomic.StoreInt32(&s.active, 0)
	running := -1
	for step := 0; ; step++ {
		var enabled []int
		alive := 0
		add := func(i int) {
			t := s.threads[i]
			if t.done {
				return
			}
			if t.waiting != nil {
				if _, h := s.held[t.waiting]; h {
					return
				}
			}
			enabled = append(enabled, i)
		}
		for _, t := range s.threads {
			if !t.done {
				alive++
			}
		}
		if alive == 0 {
			return x, nil
		}
		still := false
		if running >= 0 {
			add(running)
			still = len(enabled) == 1
		}
		for i := range s.threads {
			if i != running {
				add(i)
			}
		}
		if len(enabled) == 0 {
			x.Deadlock = true
			// release the parked goroutines is impossible; they stay blocked (leak) - the caller abandons this process state
			return x, nil
		}
		choice := 0
		if step < len(prefix) {
			choice = prefix[step]
			if choice >= len(enabled) {
				return x, fmt.Errorf("divergence while replaying: choice %d at step %d but only %d threads enabled", choice, step, len(enabled))
			}
		}
		tid := enabled[choice]
		if still && choice != 0 {
			x.Preempted++
		}
		x.Points = append(x.Points, Point{Enabled: len(enabled), RunningStillEnabled: still, Chosen: choice, Thread: tid})
		x.Choices = append(x.Choices, choice)
		t := s.threads[tid]
		if t.waiting != nil {
			s.held[t.waiting] = tid
			t.waiting = nil
		}
		s.cur = tid
		running = tid
		t.resume <- struct{}{}
		select {
		case e := <-s.events:
			switch e.kind {
			case 0:
				s.threads[e.thread].waiting = e.mutex
			case 1:
				s.threads[e.thread].done = true
			case 2:
				s.threads[e.thread].done = true
				x.Panics = append(x.Panics, e.info)
			}
		case <-time.After(watchdog):
			x.TimedOut = true
			return x, fmt.Errorf("thread %d did not reach a scheduling point within %v", tid, watchdog)
		}
	}
}

// Explore enumerates every schedule with at most bound preemptions, depth-first, calling run for each.
// run must reset the system, execute s.Run(prefix, ...) and check the outcome. expired stops the search.
func Explore(bound int, start [][]int, run func(prefix []int) (Exec, error), expired func() bool) (execs int64, complete bool, err error) {
	stack := append([][]int{}, start...)
	if len(stack) == 0 {
		stack = [][]int{{}}
	}
	complete = true
	for len(stack) > 0 {
		if expired() {
			return execs, false, nil
		}
		prefix := stack[len(stack)-1]
		stack = stack[:len(stack)-1]
		x, e := run(prefix)
		if e != nil {
			return execs, false, e
		}
		execs++
		// preemptions used before each point
		used := 0
		for i := 0; i < len(x.Points); i++ {
			p := x.Points[i]
			if i >= len(prefix) {
				for alt := 1; alt < p.Enabled; alt++ {
					cost := used
					if p.RunningStillEnabled {
						cost++
					}
					if cost > bound {
						continue
					}
					np := append(append(make([]int, 0, i+1), x.Choices[:i]...), alt)
					stack = append(stack, np)
				}
			}
			if p.RunningStillEnabled && p.Chosen != 0 {
				used++
			}
		}
	}
	return execs, complete, nil
}
