// Package ev: evidence files, violation/known-finding classification, budgets.
package ev

import (
	"crypto/sha256"
	"encoding/hex"
	"encoding/json"
	"fmt"
	"os"
	"path/filepath"
	"sort"
	"strings"
	"sync"
	"time"
)

const Root = "/verif"

// outRoot: where evidence and replays go. /verif, unless a development run against a scratch copy of the repository
// (seedtest.sh) redirects its output so that it cannot overwrite the evidence of the real tree.
func outRoot() string {
	if d := os.Getenv("VERIF_OUT"); d != "" {
		return d
	}
	return Root
}

type Finding struct {
	Property  string `json:"property"`
	Signature string `json:"signature"`
	What      string `json:"what"`
	Replay    string `json:"replay,omitempty"`
}

type knownFile struct {
	Findings []Finding `json:"findings"`
	Fixed    []string  `json:"fixed"`
}

// Ctx is handed to every check.
type Ctx struct {
	ID    string
	Tier  string // quick | thorough
	Seed  int64
	Level string // model_checking | fault_enumeration | exploration

	mu          sync.Mutex
	start       time.Time
	deadline    time.Time
	States      int64
	Transitions int64
	Evaluations int64
	Traces      int64
	distinct    map[[16]byte]struct{}
	Samples     []interface{}
	Outcomes    map[string]int64
	Extra       map[string]interface{}
	Rule        string
	Assumptions []string
	Exhaustive  bool
	CapsHit     []string
	BoundDone   string

	known      []Finding
	seenKnown  map[string]bool
	violations []violation
	harnessErr []string
}

type violation struct {
	Sig    string
	What   string
	Replay string
}

func NewCtx(id, tier string, seed int64, budget time.Duration) *Ctx {
	c := &Ctx{ID: id, Tier: tier, Seed: seed, Level: "model_checking", start: time.Now(),
		distinct: map[[16]byte]struct{}{}, Outcomes: map[string]int64{}, Extra: map[string]interface{}{},
		Exhaustive: true, seenKnown: map[string]bool{}}
	c.deadline = c.start.Add(budget)
	bz, err := os.ReadFile(filepath.Join(Root, "known_findings.json"))
	if err == nil {
		var kf knownFile
		if err := json.Unmarshal(bz, &kf); err != nil {
			c.HarnessError("known_findings.json unreadable: " + err.Error())
		}
		for _, f := range kf.Findings {
			if f.Property == id {
				c.known = append(c.known, f)
			}
		}
	}
	return c
}

// Expired reports whether the exploration budget is used up; the caller stops exploring and the
// evidence says exhaustive:false. It is never a violation.
func (c *Ctx) Expired() bool {
	if time.Now().After(c.deadline) {
		c.Cap("time budget")
		return true
	}
	return false
}

func (c *Ctx) SetBudget(d time.Duration) { c.deadline = c.start.Add(d) }

func (c *Ctx) Cap(what string) {
	c.mu.Lock()
	defer c.mu.Unlock()
	c.Exhaustive = false
	for _, x := range c.CapsHit {
		if x == what {
			return
		}
	}
	c.CapsHit = append(c.CapsHit, what)
}

func (c *Ctx) AddStates(n int64)      { c.mu.Lock(); c.States += n; c.mu.Unlock() }
func (c *Ctx) AddTransitions(n int64) { c.mu.Lock(); c.Transitions += n; c.mu.Unlock() }
func (c *Ctx) AddEvals(n int64)       { c.mu.Lock(); c.Evaluations += n; c.mu.Unlock() }
func (c *Ctx) AddTraces(n int64)      { c.mu.Lock(); c.Traces += n; c.mu.Unlock() }
func (c *Ctx) Outcome(k string)       { c.mu.Lock(); c.Outcomes[k]++; c.mu.Unlock() }
func (c *Ctx) OutcomeN(k string, n int64) {
	c.mu.Lock()
	c.Outcomes[k] += n
	c.mu.Unlock()
}

// Distinct records a non-trivial distinct case by canonical key. Returns true if new.
func (c *Ctx) Distinct(key string) bool {
	h := sha256.Sum256([]byte(key))
	var k [16]byte
	copy(k[:], h[:16])
	c.mu.Lock()
	defer c.mu.Unlock()
	if _, ok := c.distinct[k]; ok {
		return false
	}
	c.distinct[k] = struct{}{}
	return true
}

func (c *Ctx) NDistinct() int { c.mu.Lock(); defer c.mu.Unlock(); return len(c.distinct) }

func (c *Ctx) Sample(s interface{}) {
	c.mu.Lock()
	defer c.mu.Unlock()
	if len(c.Samples) < 6 {
		c.Samples = append(c.Samples, s)
	}
}

func (c *Ctx) Assume(s string) { c.Assumptions = append(c.Assumptions, s) }

func (c *Ctx) HarnessError(s string) {
	c.mu.Lock()
	defer c.mu.Unlock()
	if len(c.harnessErr) < 20 {
		c.harnessErr = append(c.harnessErr, s)
	}
}

// Report records a property violation with a classifier signature. If the signature is listed
// in known_findings.json for this property it is a KNOWN-FINDING, otherwise a VIOLATION.
// replay is any JSON-able description of the failing case; it is written to /verif/replays.
// Only the first violation per signature is kept (BFS/simplest-first order => minimal).
func (c *Ctx) Report(sig, what string, replay interface{}) {
	c.mu.Lock()
	defer c.mu.Unlock()
	for _, k := range c.known {
		if k.Signature == sig {
			c.seenKnown[sig] = true
			return
		}
	}
	for _, v := range c.violations {
		if v.Sig == sig {
			return
		}
	}
	if len(c.violations) >= 25 {
		return
	}
	path := ""
	if replay != nil {
		bz, _ := json.MarshalIndent(map[string]interface{}{"property": c.ID, "signature": sig, "what": what, "case": replay}, "", " ")
		h := sha256.Sum256(bz)
		path = filepath.Join(outRoot(), "replays", fmt.Sprintf("%s-%s.json", c.ID, hex.EncodeToString(h[:6])))
		_ = os.MkdirAll(filepath.Dir(path), 0o755)
		_ = os.WriteFile(path, bz, 0o644)
	}
	c.violations = append(c.violations, violation{sig, what, path})
}

func (c *Ctx) NViolations() int { c.mu.Lock(); defer c.mu.Unlock(); return len(c.violations) }

// HasSig reports whether a violation or known finding with that signature was already recorded.
func (c *Ctx) HasSig(sig string) bool {
	c.mu.Lock()
	defer c.mu.Unlock()
	if c.seenKnown[sig] {
		return true
	}
	for _, v := range c.violations {
		if v.Sig == sig {
			return true
		}
	}
	return false
}

// Finish writes the evidence file, prints KNOWN-FINDING / VIOLATION lines, returns the exit code.
func (c *Ctx) Finish() int {
	wall := time.Since(c.start).Seconds()
	cov := map[string]interface{}{}
	for k, v := range c.Extra {
		cov[k] = v
	}
	if c.Transitions == 0 && c.Evaluations > 0 {
		c.Transitions = c.Evaluations
	}
	if c.States == 0 {
		c.States = int64(len(c.distinct))
	}
	if c.Evaluations == 0 {
		c.Evaluations = c.Transitions
	}
	if c.Traces == 0 {
		c.Traces = c.Evaluations
	}
	cov["states"] = c.States
	cov["transitions"] = c.Transitions
	cov["traces_validated_against_impl"] = c.Traces
	cov["evaluations"] = c.Evaluations
	cov["distinct_nontrivial"] = len(c.distinct)
	cov["rule"] = c.Rule
	if len(c.Samples) == 0 {
		c.Samples = []interface{}{"(no sample recorded)"}
	}
	cov["samples"] = c.Samples
	cov["exhaustive"] = c.Exhaustive
	cov["caps_hit"] = c.CapsHit
	cov["bound_completed"] = c.BoundDone
	cov["outcomes"] = c.Outcomes
	var stale []string
	for _, k := range c.known {
		if !c.seenKnown[k.Signature] {
			stale = append(stale, k.Signature)
		}
	}
	cov["stale_known"] = stale
	var seen []string
	for k := range c.seenKnown {
		seen = append(seen, k)
	}
	sort.Strings(seen)
	cov["known_findings_observed"] = seen
	if len(c.harnessErr) > 0 {
		cov["harness_errors"] = c.harnessErr
	}
	evd := map[string]interface{}{
		"property_id": c.ID, "tier": c.Tier, "seed": c.Seed, "level": c.Level, "coverage": cov,
		"assumptions": append([]string{}, c.Assumptions...), "wall_s": wall, "violations": len(c.violations),
	}
	bz, _ := json.MarshalIndent(evd, "", " ")
	_ = os.MkdirAll(filepath.Join(outRoot(), "evidence"), 0o755)
	if err := os.WriteFile(filepath.Join(outRoot(), "evidence", c.ID+".json"), bz, 0o644); err != nil {
		fmt.Println("harness error: cannot write evidence:", err)
		return 2
	}
	for _, k := range c.known {
		if c.seenKnown[k.Signature] {
			fmt.Printf("KNOWN-FINDING: property=%s %s [%s]\n", c.ID, k.What, k.Signature)
		}
	}
	fmt.Printf("%s %s: states=%d transitions=%d evaluations=%d distinct=%d exhaustive=%v caps=%v wall=%.1fs outcomes=%s\n",
		c.ID, c.Tier, c.States, c.Transitions, c.Evaluations, len(c.distinct), c.Exhaustive, c.CapsHit, wall, fmtOutcomes(c.Outcomes))
	if len(c.harnessErr) > 0 {
		for _, h := range c.harnessErr {
			fmt.Println("HARNESS-ERROR:", h)
		}
		return 2
	}
	if len(c.violations) > 0 {
		for _, v := range c.violations {
			fmt.Printf("VIOLATION property=%s replay=%s\n   signature=%s\n   %s\n", c.ID, v.Replay, v.Sig, v.What)
		}
		return 1
	}
	return 0
}

func fmtOutcomes(m map[string]int64) string {
	ks := make([]string, 0, len(m))
	for k := range m {
		ks = append(ks, k)
	}
	sort.Strings(ks)
	var sb strings.Builder
	for i, k := range ks {
		if i > 40 {
			sb.WriteString(" …")
			break
		}
		fmt.Fprintf(&sb, " %s=%d", k, m[k])
	}
	return sb.String()
}
