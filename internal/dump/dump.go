// Package dump renders private state of real objects canonically (reflect + unsafe, read-only),
// so that dedup keys of the explorers contain the implementation's own bookkeeping without
// source hooks.
package dump

import (
	"container/list"
	"fmt"
	"reflect"
	"sort"
	"strings"
	"unsafe"
)

type Opts struct {
	// Follow decides whether to descend into a value of this type (pointers/interfaces/structs).
	// Types for which it returns false are rendered by name only.
	Follow func(t reflect.Type) bool
	// SkipField omits struct fields by "Type.Field".
	SkipField func(structType reflect.Type, field string) bool
}

var listType = reflect.TypeOf(list.List{})

func access(v reflect.Value) reflect.Value {
	if v.CanInterface() {
		return v
	}
	if v.CanAddr() {
		return reflect.NewAt(v.Type(), unsafe.Pointer(v.UnsafeAddr())).Elem()
	}
	return v
}

// Dump returns a canonical string of v.
func Dump(x interface{}, o Opts) string {
	var sb strings.Builder
	seen := map[uintptr]bool{}
	v := reflect.ValueOf(x)
	walk(&sb, v, o, seen, 0)
	return sb.String()
}

func walk(sb *strings.Builder, v reflect.Value, o Opts, seen map[uintptr]bool, depth int) {
	if depth > 40 {
		sb.WriteString("<deep>")
		return
	}
	if !v.IsValid() {
		sb.WriteString("<nil>")
		return
	}
	v = access(v)
	t := v.Type()
	switch v.Kind() {
	case reflect.Ptr:
		if v.IsNil() {
			sb.WriteString("nil")
			return
		}
		if t.Elem() == listType {
			l := (*list.List)(unsafe.Pointer(v.Pointer()))
			sb.WriteString("list[")
			for e := l.Front(); e != nil; e = e.Next() {
				walk(sb, reflect.ValueOf(e.Value), o, seen, depth+1)
				sb.WriteString(";")
			}
			sb.WriteString("]")
			return
		}
		if o.Follow != nil && !o.Follow(t) {
			sb.WriteString("&" + t.Elem().String())
			return
		}
		p := v.Pointer()
		if seen[p] {
			sb.WriteString("<cycle>")
			return
		}
		seen[p] = true
		sb.WriteString("&")
		walk(sb, v.Elem(), o, seen, depth+1)
		delete(seen, p)
	case reflect.Interface:
		if v.IsNil() {
			sb.WriteString("nil")
			return
		}
		walk(sb, v.Elem(), o, seen, depth+1)
	case reflect.Struct:
		if o.Follow != nil && !o.Follow(t) {
			sb.WriteString(t.String())
			return
		}
		sb.WriteString(t.Name() + "{")
		if !v.CanAddr() {
			// make addressable copy so unexported fields can be read
			c := reflect.New(t).Elem()
			c.Set(v)
			v = c
		}
		for i := 0; i < t.NumField(); i++ {
			f := t.Field(i)
			if o.SkipField != nil && o.SkipField(t, f.Name) {
				continue
			}
			sb.WriteString(f.Name + ":")
			walk(sb, v.Field(i), o, seen, depth+1)
			sb.WriteString(",")
		}
		sb.WriteString("}")
	case reflect.Map:
		if v.IsNil() {
			sb.WriteString("nilmap")
			return
		}
		type kvp struct{ k, v string }
		var items []kvp
		it := v.MapRange()
		for it.Next() {
			var kb, vb strings.Builder
			walk(&kb, it.Key(), o, seen, depth+1)
			walk(&vb, it.Value(), o, seen, depth+1)
			items = append(items, kvp{kb.String(), vb.String()})
		}
		sort.Slice(items, func(i, j int) bool { return items[i].k < items[j].k })
		sb.WriteString("map[")
		for _, it := range items {
			sb.WriteString(it.k + "=>" + it.v + ";")
		}
		sb.WriteString("]")
	case reflect.Slice:
		if v.IsNil() {
			sb.WriteString("nilslice")
			return
		}
		if t.Elem().Kind() == reflect.Uint8 {
			fmt.Fprintf(sb, "x%x", v.Bytes())
			return
		}
		fallthrough
	case reflect.Array:
		sb.WriteString("[")
		for i := 0; i < v.Len(); i++ {
			walk(sb, v.Index(i), o, seen, depth+1)
			sb.WriteString(",")
		}
		sb.WriteString("]")
	case reflect.String:
		fmt.Fprintf(sb, "%q", v.String())
	case reflect.Bool:
		fmt.Fprintf(sb, "%v", v.Bool())
	case reflect.Int, reflect.Int8, reflect.Int16, reflect.Int32, reflect.Int64:
		fmt.Fprintf(sb, "%d", v.Int())
	case reflect.Uint, reflect.Uint8, reflect.Uint16, reflect.Uint32, reflect.Uint64, reflect.Uintptr:
		fmt.Fprintf(sb, "%d", v.Uint())
	case reflect.Float32, reflect.Float64:
		fmt.Fprintf(sb, "%v", v.Float())
	case reflect.Func, reflect.Chan, reflect.UnsafePointer:
		sb.WriteString(t.String())
	default:
		sb.WriteString("?" + t.String())
	}
}
