// Package recdb: a dbm.DB over MemDB that records every write (direct write or whole batch) as one
// atomic log entry, so that crash states can be materialised as "snapshot + chosen entries".
package recdb

import (
	"sync"

	dbm "github.com/tendermint/tm-db"
)

type Op struct {
	Del  bool
	K, V []byte
}

type Entry struct {
	Batch bool
	Ops   []Op
}

type DB struct {
	*dbm.MemDB
	mu  sync.Mutex
	Log []Entry
	// FailAfter: if >= 0, the write with this log index and all later ones are dropped (crash)
	Recording bool
}

func New() *DB { return &DB{MemDB: dbm.NewMemDB(), Recording: true} }

func cp(b []byte) []byte { return append([]byte{}, b...) }

func (d *DB) rec(e Entry) {
	if !d.Recording {
		return
	}
	d.mu.Lock()
	d.Log = append(d.Log, e)
	d.mu.Unlock()
}

func (d *DB) Set(k, v []byte) error {
	d.rec(Entry{Ops: []Op{{K: cp(k), V: cp(v)}}})
	return d.MemDB.Set(k, v)
}
func (d *DB) SetSync(k, v []byte) error { return d.Set(k, v) }
func (d *DB) Delete(k []byte) error {
	d.rec(Entry{Ops: []Op{{Del: true, K: cp(k)}}})
	return d.MemDB.Delete(k)
}
func (d *DB) DeleteSync(k []byte) error { return d.Delete(k) }

func (d *DB) NewBatch() dbm.Batch { return &batch{db: d} }

type batch struct {
	db  *DB
	ops []Op
}

func (b *batch) Set(k, v []byte) { b.ops = append(b.ops, Op{K: cp(k), V: cp(v)}) }
func (b *batch) Delete(k []byte) { b.ops = append(b.ops, Op{Del: true, K: cp(k)}) }
func (b *batch) Write() error {
	b.db.rec(Entry{Batch: true, Ops: b.ops})
	for _, o := range b.ops {
		if o.Del {
			_ = b.db.MemDB.Delete(o.K)
		} else {
			_ = b.db.MemDB.Set(o.K, o.V)
		}
	}
	b.ops = nil
	return nil
}
func (b *batch) WriteSync() error { return b.Write() }
func (b *batch) Close()           {}

// Snapshot copies the current content into a plain MemDB.
func (d *DB) Snapshot() *dbm.MemDB {
	n := dbm.NewMemDB()
	it, _ := d.MemDB.Iterator(nil, nil)
	for ; it.Valid(); it.Next() {
		_ = n.Set(cp(it.Key()), cp(it.Value()))
	}
	it.Close()
	return n
}

// ApplyTo applies one log entry to a plain DB.
func (e Entry) ApplyTo(db dbm.DB) {
	for _, o := range e.Ops {
		if o.Del {
			_ = db.Delete(o.K)
		} else {
			_ = db.Set(o.K, o.V)
		}
	}
}
