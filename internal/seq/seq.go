// Package seq: depth-bounded breadth-first search over operation sequences on real objects.
// A state is the history reaching it; successors are built by replaying the history on a fresh
// instance plus one operation (live objects cannot be cloned). States are merged by the canonical
// key the system under test reports (model state + implementation bookkeeping).
package seq

import (
	"fmt"
	"runtime"
	"sync"

	"verif/internal/ev"
)

// Sys couples a real object with its reference model.
type Sys interface {
	// Enabled says whether op may be applied in the current state.
	Enabled(op int) bool
	// Apply performs op on implementation and model and compares every observable result.
	// A non-empty sig means the implementation disagreed with the model.
	Apply(op int) (sig, what string)
	// Key is the canonical dedup key of the current state.
	Key() string
	// Final runs a complete (possibly destructive) observation of the current state.
	Final() (sig, what string)
	Close()
}

// Observer is an optional extension of Sys: a targeted observation of what the newest operation can have changed,
// run on every transition (not during prefix replay). Used where Final is too expensive to run on every transition.
type Observer interface {
	Observe(op int) (sig, what string)
}

type Spec struct {
	Name    string
	NumOps  int
	OpName  func(op int) string
	OpKind  func(op int) string // coarse class for the outcome histogram
	New     func() Sys
	Depth   int
	Trivial func(hist []uint16) bool // histories not counted as non-trivial (optional)
	// FinalOnNewStatesOnly: run the complete observation only when a new model state is reached (for systems whose
	// Apply already observes everything the operation can change, or whose Final is very expensive)
	FinalOnNewStatesOnly bool
}

type Result struct {
	States, Transitions int64
	DepthDone           int
	Complete            bool
}

type Replay struct {
	Spec string   `json:"spec"`
	Ops  []string `json:"ops"`
	Idx  []uint16 `json:"idx"`
}

func names(sp *Spec, h []uint16) []string {
	out := make([]string, len(h))
	for i, o := range h {
		out[i] = sp.OpName(int(o))
	}
	return out
}

// Run explores all histories up to sp.Depth.
func Run(c *ev.Ctx, sp *Spec) Result {
	type shard struct {
		mu sync.Mutex
		m  map[string]struct{}
	}
	const nsh = 64
	shards := make([]*shard, nsh)
	for i := range shards {
		shards[i] = &shard{m: map[string]struct{}{}}
	}
	addSeen := func(k string) bool {
		h := uint32(2166136261)
		for i := 0; i < len(k); i++ {
			h = (h ^ uint32(k[i])) * 16777619
		}
		s := shards[h%nsh]
		s.mu.Lock()
		defer s.mu.Unlock()
		if _, ok := s.m[k]; ok {
			return false
		}
		s.m[k] = struct{}{}
		return true
	}
	res := Result{Complete: true}
	init := sp.New()
	addSeen(init.Key())
	if sig, what := init.Final(); sig != "" {
		c.Report(sp.Name+"/"+sig, what, Replay{Spec: sp.Name})
	}
	init.Close()
	res.States = 1
	frontier := [][]uint16{{}}
	nw := runtime.GOMAXPROCS(0)
	for d := 1; d <= sp.Depth && len(frontier) > 0; d++ {
		var next [][]uint16
		var nmu sync.Mutex
		var trans, states, finals int64
		var wg sync.WaitGroup
		jobs := make(chan []uint16, 1024)
		aborted := false
		var amu sync.Mutex
		for w := 0; w < nw; w++ {
			wg.Add(1)
			go func() {
				defer wg.Done()
				var ltrans, lstates, lfinals int64
				var lnext [][]uint16
				for h := range jobs {
					if c.Expired() {
						amu.Lock()
						aborted = true
						amu.Unlock()
						continue
					}
					for op := 0; op < sp.NumOps; op++ {
						s := sp.New()
						bad := false
						for i, o := range h {
							if sig, what := s.Apply(int(o)); sig != "" {
								// this prefix passed when it was first explored: nondeterminism
								c.HarnessError(fmt.Sprintf("%s: divergence while replaying prefix %v at %d: %s %s", sp.Name, names(sp, h), i, sig, what))
								bad = true
								break
							}
						}
						if bad || !s.Enabled(op) {
							s.Close()
							continue
						}
						ltrans++
						nh := append(append(make([]uint16, 0, len(h)+1), h...), uint16(op))
						sig, what := s.Apply(op)
						if sp.OpKind != nil {
							c.Outcome(sp.Name + ":" + sp.OpKind(op))
						}
						if sig != "" {
							c.Report(sp.Name+"/"+sig, what, Replay{Spec: sp.Name, Ops: names(sp, nh), Idx: nh})
							s.Close()
							continue // do not extend through a diverged state
						}
						if ob, ok := s.(Observer); ok {
							if sig, what := ob.Observe(op); sig != "" {
								c.Report(sp.Name+"/"+sig, what, Replay{Spec: sp.Name, Ops: names(sp, nh), Idx: nh})
								s.Close()
								continue
							}
							lfinals++
						}
						k := s.Key()
						isNew := addSeen(k)
						// The dedup key is derived from the reference model. Two histories that reach the same model
						// state are only merged after the implementation has been observed completely on BOTH of
						// them: an operation that leaves the implementation in another state than the model is seen
						// here even when the model state was reached before by a correct path.
						if isNew || !sp.FinalOnNewStatesOnly {
							if sig, what := s.Final(); sig != "" {
								c.Report(sp.Name+"/final/"+sig, what, Replay{Spec: sp.Name, Ops: names(sp, nh), Idx: nh})
							}
							lfinals++
						}
						if isNew {
							lstates++
							lnext = append(lnext, nh)
							if sp.Trivial == nil || !sp.Trivial(nh) {
								c.Distinct(sp.Name + "|" + k)
							}
						}
						s.Close()
					}
				}
				nmu.Lock()
				next = append(next, lnext...)
				trans += ltrans
				states += lstates
				finals += lfinals
				nmu.Unlock()
			}()
		}
		for _, h := range frontier {
			jobs <- h
		}
		close(jobs)
		wg.Wait()
		res.Transitions += trans
		res.States += states
		c.AddEvals(finals)
		if aborted {
			res.Complete = false
			break
		}
		res.DepthDone = d
		frontier = next
		if len(next) > 0 {
			c.Sample(map[string]interface{}{"spec": sp.Name, "depth": d, "history": names(sp, next[len(next)/2])})
		}
	}
	c.AddStates(res.States)
	c.AddTransitions(res.Transitions)
	return res
}

// ReplayOps re-executes one recorded history without the explorer.
func ReplayOps(sp *Spec, idx []uint16) (string, error) {
	s := sp.New()
	defer s.Close()
	for i, o := range idx {
		if !s.Enabled(int(o)) {
			return "", fmt.Errorf("op %d (%s) not enabled at step %d", o, sp.OpName(int(o)), i)
		}
		if sig, what := s.Apply(int(o)); sig != "" {
			return fmt.Sprint(names(sp, idx[:i+1])), fmt.Errorf("%s: %s", sig, what)
		}
	}
	if ob, ok := s.(Observer); ok && len(idx) > 0 {
		if sig, what := ob.Observe(int(idx[len(idx)-1])); sig != "" {
			return fmt.Sprint(names(sp, idx)), fmt.Errorf("%s: %s", sig, what)
		}
	}
	if sig, what := s.Final(); sig != "" {
		return fmt.Sprint(names(sp, idx)), fmt.Errorf("final/%s: %s", sig, what)
	}
	return fmt.Sprint(names(sp, idx)), nil
}
